"""odML 1.1 XML vocabulary (typed out from the format description, not imported from the
library), an independent vocabulary checker on top of xml.etree.ElementTree and an
independent emitter used as "another tool writing to that vocabulary"."""
import random
import xml.etree.ElementTree as ET
from xml.sax.saxutils import escape

ROOT = "odML"
VERSION = "1.1"
DOC_CHILDREN = {"id", "version", "author", "date", "repository", "section"}
SEC_CHILDREN = {"id", "type", "name", "definition", "reference", "link", "repository", "include",
                "section", "property", "sec_cardinality", "prop_cardinality"}
PROP_CHILDREN = {"id", "name", "value", "unit", "definition", "dependency", "dependencyvalue",
                 "uncertainty", "reference", "type", "value_origin", "val_cardinality"}


def check_vocabulary(text, allow_foreign_root_children=0):
    """Returns a list of problems (strings). Empty list = conforms."""
    problems = []
    try:
        root = ET.fromstring(text.encode("utf-8") if isinstance(text, str) else text)
    except ET.ParseError as exc:
        return ["output is not well-formed XML: %s" % exc]
    if root.tag != ROOT:
        problems.append("root element is <%s>" % root.tag)
        return problems
    if dict(root.attrib) != {"version": VERSION}:
        problems.append("root attributes are %r" % dict(root.attrib))
    foreign = 0

    def leaf(el, parent):
        if el.attrib:
            problems.append("<%s> in <%s> carries attributes %r" % (el.tag, parent, dict(el.attrib)))
        if len(el):
            problems.append("<%s> in <%s> has child elements" % (el.tag, parent))

    def walk_prop(el):
        if el.attrib:
            problems.append("<property> carries attributes")
        seen = set()
        for ch in el:
            if ch.tag not in PROP_CHILDREN:
                problems.append("<%s> inside <property> is not odML 1.1 vocabulary" % ch.tag)
                continue
            if ch.tag in seen:
                problems.append("<%s> given twice in <property>" % ch.tag)
            seen.add(ch.tag)
            leaf(ch, "property")

    def walk_sec(el):
        if el.attrib:
            problems.append("<section> carries attributes")
        seen = set()
        for ch in el:
            if ch.tag not in SEC_CHILDREN:
                problems.append("<%s> inside <section> is not odML 1.1 vocabulary" % ch.tag)
            elif ch.tag == "section":
                walk_sec(ch)
            elif ch.tag == "property":
                walk_prop(ch)
            else:
                if ch.tag in seen:
                    problems.append("<%s> given twice in <section>" % ch.tag)
                seen.add(ch.tag)
                leaf(ch, "section")

    seen = set()
    for ch in root:
        if ch.tag not in DOC_CHILDREN:
            if ch.tag.startswith("{") and foreign < allow_foreign_root_children:
                foreign += 1
                continue
            problems.append("<%s> inside <odML> is not odML 1.1 vocabulary" % ch.tag)
        elif ch.tag == "section":
            walk_sec(ch)
        else:
            if ch.tag in seen:
                problems.append("<%s> given twice in <odML>" % ch.tag)
            seen.add(ch.tag)
            leaf(ch, "odML")
    if allow_foreign_root_children and foreign != allow_foreign_root_children:
        problems.append("expected %d foreign element(s) under the root, found %d"
                        % (allow_foreign_root_children, foreign))
    return problems[:10]


# ------------------------------------------------------------------------------------
# independent emitter

def _val_text(v, dtype):
    if dtype == "boolean":
        return "true" if v else "false"
    if dtype == "float":
        return repr(float(v))
    if dtype and dtype.endswith("-tuple"):
        return "(" + ";".join(v) + ")"
    return str(v)


def _csv_field(v):
    """One field of a comma separated list, quoted the standard way when it has to be."""
    if any(c in v for c in ',"\n\r'):
        return '"' + v.replace('"', '""') + '"'
    return v


def _card(c):
    return "(%s, %s)" % (c[0], c[1])


def _el(tag, text, indent):
    if text is None:
        return None
    text = str(text)
    if text == "":
        return "%s<%s></%s>" % (indent, tag, tag)
    # a carriage return has to be written as a character reference (XML normalises line ends)
    return "%s<%s>%s</%s>" % (indent, tag, escape(text, {"\r": "&#13;"}), tag)


def emit(spec, perm_seed=0, with_decl=True, comments=True):
    """Write a document spec as odML 1.1 XML the way another tool might: other element
    order, other indentation, comments, explicit empty elements."""
    rnd = random.Random(perm_seed)
    out = []
    if with_decl:
        out.append('<?xml version="1.0" encoding="UTF-8"?>')
    if comments:
        out.append("<!-- written by another tool -->")

    def prop(p, ind):
        parts = [_el("name", p["name"], ind + "\t"), _el("id", p.get("id"), ind + "\t"),
                 _el("type", p["dtype"], ind + "\t"), _el("unit", p.get("unit"), ind + "\t"),
                 _el("uncertainty", p.get("uncertainty"), ind + "\t"),
                 _el("definition", p.get("definition"), ind + "\t"),
                 _el("reference", p.get("reference"), ind + "\t"),
                 _el("dependency", p.get("dependency"), ind + "\t"),
                 _el("dependencyvalue", p.get("dependency_value"), ind + "\t"),
                 _el("value_origin", p.get("value_origin"), ind + "\t")]
        if p.get("val_card"):
            parts.append(_el("val_cardinality", _card(p["val_card"]), ind + "\t"))
        vals = [_val_text(v, p["dtype"]).strip() for v in p["values"]]
        if len(vals) == 1 and (vals[0] == "" or (vals[0][0] == "[" and vals[0][-1] == "]")):
            # one empty string is not "no value"; one bracketed text is not a list
            parts.append(_el("value", "[" + _csv_field(vals[0] or '') + "]" if vals[0] else '[""]',
                             ind + "\t"))
        elif len(vals) == 1:
            parts.append(_el("value", vals[0], ind + "\t"))
        elif len(vals) > 1:
            parts.append(_el("value", "[" + ",".join(_csv_field(v) for v in vals) + "]", ind + "\t"))
        elif rnd.random() < 0.5:
            parts.append("%s\t<value/>" % ind)
        parts = [x for x in parts if x is not None]
        rnd.shuffle(parts)
        return "\n".join(["%s<property>" % ind] + parts + ["%s</property>" % ind])

    def sec(s, ind):
        parts = [_el("name", s["name"], ind + "\t"), _el("type", s["type"], ind + "\t"),
                 _el("id", s.get("id"), ind + "\t"), _el("definition", s.get("definition"), ind + "\t"),
                 _el("reference", s.get("reference"), ind + "\t"),
                 _el("repository", s.get("repository"), ind + "\t")]
        if s.get("sec_card"):
            parts.append(_el("sec_cardinality", _card(s["sec_card"]), ind + "\t"))
        if s.get("prop_card"):
            parts.append(_el("prop_cardinality", _card(s["prop_card"]), ind + "\t"))
        parts = [x for x in parts if x is not None]
        rnd.shuffle(parts)
        # children keep their relative order (child order is part of the document)
        kids = [prop(p, ind + "\t") for p in s.get("props", [])]
        subs = [sec(x, ind + "\t") for x in s.get("sections", [])]
        if rnd.random() < 0.5:
            body = parts + kids + subs
        else:
            cut = rnd.randint(0, len(parts))
            body = parts[:cut] + subs + parts[cut:] + kids
        if comments and rnd.random() < 0.3:
            body.insert(rnd.randint(0, len(body)), "%s\t<!-- c -->" % ind)
        return "\n".join(["%s<section>" % ind] + body + ["%s</section>" % ind])

    parts = [_el("author", spec.get("author"), "  "), _el("version", spec.get("version"), "  "),
             _el("date", spec.get("date"), "  "), _el("repository", spec.get("repository"), "  "),
             _el("id", spec.get("id"), "  ")]
    parts = [x for x in parts if x is not None]
    rnd.shuffle(parts)
    subs = [sec(s, "  ") for s in spec.get("sections", [])]
    cut = rnd.randint(0, len(parts))
    out.append('<odML version="1.1">')
    out.extend(parts[:cut] + subs + parts[cut:])
    out.append("</odML>")
    return "\n".join(out) + "\n"
