"""Independent re-implementation of the documented default validation rules (C08).

``expect(obj)`` walks the object graph itself and returns, per rule kind, which objects
*must* be reported and which *must not*; anything else is slack the documentation leaves.
"""
from ..snap import kind
from . import cardinality as C

ERROR, WARNING = "error", "warning"

RANK = {101: ERROR, 102: WARNING, 200: ERROR, 201: ERROR, 202: ERROR, 203: ERROR, 300: WARNING,
        401: WARNING, 402: WARNING, 500: WARNING, 501: WARNING, 502: WARNING}
IFF_KINDS = (101, 102, 202, 203, 300, 402, 500, 501, 502)

PYTYPES = None


def _raw(lst):
    return list(list.__iter__(lst))


def visited(root):
    """Objects the rules apply to when ``root`` is validated (root, everything below it; for a
    Section also its own Properties)."""
    out = []
    k = kind(root)
    if k == "prop":
        return [root]
    out.append(root)
    stack = [root]
    seen = {id(root)}
    while stack:
        o = stack.pop(0)
        if kind(o) == "sec":
            out.extend(_raw(o.properties))
        for s in _raw(o.sections):
            if id(s) not in seen:
                seen.add(id(s))
                out.append(s)
                stack.append(s)
    return out


def _conforms(value, dtype):
    from ..value_engine import canonical_dtype, conforms
    if dtype is None or not canonical_dtype(dtype):
        return True
    return conforms(value, dtype)


def expect(root):
    """-> (required: set[(id(obj), kind)], forbidden: set[(id(obj), kind)], id_counts: dict or None)"""
    objs = visited(root)
    required, forbidden = set(), set()

    def req(o, k):
        required.add((id(o), k))

    for o in objs:
        k = kind(o)
        if k == "sec":
            if not o.type and not isinstance(o.type, bool):
                req(o, 101)
            if not o.name:
                req(o, 101)
            if o.type == "n.s.":
                req(o, 102)
            if C.violated(o.prop_cardinality, len(_raw(o.properties))):
                req(o, 500)
            if C.violated(o.sec_cardinality, len(_raw(o.sections))):
                req(o, 501)
        if k == "prop":
            if not o.name:
                req(o, 101)
            if C.violated(o.val_cardinality, len(o.values)):
                req(o, 502)
            if any(not _conforms(v, o.dtype) for v in o.values):
                req(o, 402)
        if k in ("sec", "prop") and o.name == o.id:
            req(o, 300)
        if k in ("doc", "sec"):
            seen = set()
            for c in _raw(o.sections):
                key = (c.name, c.type)
                if key in seen:
                    req(c, 202)
                seen.add(key)
        if k == "sec":
            seen = set()
            for c in _raw(o.properties):
                if c.name in seen:
                    req(c, 203)
                seen.add(c.name)
    for o in objs:
        for knd in IFF_KINDS:
            if (id(o), knd) not in required:
                forbidden.add((id(o), knd))

    # dependency rule (401), with the slack the documentation leaves
    for o in objs:
        if kind(o) != "prop":
            continue
        dep = o.dependency
        par = o._parent
        if dep is None:
            forbidden.add((id(o), 401))
            continue
        if par is None:
            continue
        targets = [p for p in _raw(par.properties) if p.name == dep]
        if not targets:
            req(o, 401)
            continue
        tgt = targets[0]
        dv = o.dependency_value
        vals = tgt.values
        if isinstance(dv, str) and dv != "":
            texts = [str(v) for v in vals]
            if all(dv != t and dv not in t for t in texts):
                req(o, 401)
            elif len(vals) == 1 and texts[0] == dv:
                forbidden.add((id(o), 401))

    id_counts = None
    if kind(root) == "doc":
        id_counts = {}
        for o in objs:
            id_counts[o.id] = id_counts.get(o.id, 0) + 1
    return required, forbidden, id_counts, objs
