"""odML 1.1 dictionary (JSON/YAML) layout: key tables typed out from the format description,
a layout checker working on json/yaml-parsed data, and an independent emitter."""
import datetime as dt

ROOT_KEYS = {"Document", "odml-version"}
VERSION = "1.1"
DOC_KEYS = {"id", "version", "author", "date", "repository", "sections"}
SEC_KEYS = {"id", "type", "name", "definition", "reference", "link", "repository", "include",
            "sections", "properties", "sec_cardinality", "prop_cardinality"}
PROP_KEYS = {"id", "name", "value", "unit", "definition", "dependency", "dependencyvalue",
             "uncertainty", "reference", "type", "value_origin", "val_cardinality"}


def check_layout(data):
    """``data``: what json.loads / yaml.safe_load returned. Returns a list of problems."""
    problems = []
    if not isinstance(data, dict):
        return ["root is %s, not a mapping" % type(data).__name__]
    if set(data) != ROOT_KEYS:
        problems.append("root keys are %r" % sorted(map(str, data)))
        return problems
    if data["odml-version"] != VERSION:
        problems.append("odml-version is %r" % (data["odml-version"],))
    doc = data["Document"]
    if not isinstance(doc, dict):
        return problems + ["Document is not a mapping"]

    def card(c, where):
        if not (isinstance(c, list) and len(c) == 2 and
                all(x is None or (isinstance(x, int) and not isinstance(x, bool)) for x in c)):
            problems.append("%s cardinality is %r, not a 2-element list" % (where, c))

    def prop(p):
        if not isinstance(p, dict):
            problems.append("property entry is not a mapping")
            return
        extra = set(p) - PROP_KEYS
        if extra:
            problems.append("property keys outside the odML 1.1 layout: %r" % sorted(map(str, extra)))
        if "value" in p and not isinstance(p["value"], (list, str)):
            problems.append("property value is %s" % type(p["value"]).__name__)
        if "val_cardinality" in p:
            card(p["val_cardinality"], "val")
        for k, v in p.items():
            if k not in ("value", "val_cardinality", "uncertainty") and not isinstance(v, str):
                problems.append("property %s is %s, not text" % (k, type(v).__name__))

    def sec(s):
        if not isinstance(s, dict):
            problems.append("section entry is not a mapping")
            return
        extra = set(s) - SEC_KEYS
        if extra:
            problems.append("section keys outside the odML 1.1 layout: %r" % sorted(map(str, extra)))
        for k in ("sec_cardinality", "prop_cardinality"):
            if k in s:
                card(s[k], k)
        for k in ("sections", "properties"):
            if k in s and not isinstance(s[k], list):
                problems.append("section %s is not a list" % k)
        for p in s.get("properties", []) if isinstance(s.get("properties", []), list) else []:
            prop(p)
        for c in s.get("sections", []) if isinstance(s.get("sections", []), list) else []:
            sec(c)

    extra = set(doc) - DOC_KEYS
    if extra:
        problems.append("Document keys outside the odML 1.1 layout: %r" % sorted(map(str, extra)))
    if "sections" in doc and not isinstance(doc["sections"], list):
        problems.append("Document sections is not a list")
    else:
        for s in doc.get("sections", []):
            sec(s)
    return problems[:10]


# ------------------------------------------------------------------------------------
# independent emitter: spec -> plain dict in the odML 1.1 layout

def _value(v, dtype, native_dates):
    if dtype == "date":
        return dt.date.fromisoformat(v) if native_dates else v
    if dtype == "datetime":
        return dt.datetime.fromisoformat(v) if native_dates else v
    return v


def to_dict(spec, native_dates=False, reverse_keys=False, omit_empty=False):
    """``omit_empty``: a foreign tool need not write child lists that are empty."""
    def order(d):
        items = [(k, v) for k, v in d.items() if v is not None and
                 not (omit_empty and k in ("properties", "sections") and v == [])]
        if reverse_keys:
            items.reverse()
        return dict(items)

    def prop(p):
        d = {"name": p["name"], "id": p.get("id"), "type": p["dtype"],
             "unit": p.get("unit"), "uncertainty": p.get("uncertainty"),
             "definition": p.get("definition"), "reference": p.get("reference"),
             "dependency": p.get("dependency"), "dependencyvalue": p.get("dependency_value"),
             "value_origin": p.get("value_origin"),
             "val_cardinality": list(p["val_card"]) if p.get("val_card") else None}
        if p["dtype"].endswith("-tuple"):
            texts = ["(" + ";".join(v) + ")" for v in p["values"]]
            if any("," in t or '"' in t for t in texts):
                d["value"] = texts           # a list of tuple texts is unambiguous
            elif p["values"]:
                d["value"] = "[" + ",".join(texts) + "]"
            else:
                d["value"] = []
        else:
            d["value"] = [_value(v, p["dtype"], native_dates) for v in p["values"]]
        return order(d)

    def sec(s):
        d = {"name": s["name"], "type": s["type"], "id": s.get("id"),
             "definition": s.get("definition"), "reference": s.get("reference"),
             "repository": s.get("repository"),
             "sec_cardinality": list(s["sec_card"]) if s.get("sec_card") else None,
             "prop_cardinality": list(s["prop_card"]) if s.get("prop_card") else None,
             "properties": [prop(p) for p in s.get("props", [])],
             "sections": [sec(c) for c in s.get("sections", [])]}
        return order(d)

    doc = {"id": spec.get("id"), "author": spec.get("author"), "version": spec.get("version"),
           "date": (dt.date.fromisoformat(spec["date"]) if native_dates and spec.get("date")
                    else spec.get("date")),
           "repository": spec.get("repository"),
           "sections": [sec(s) for s in spec.get("sections", [])]}
    return {"odml-version": VERSION, "Document": order(doc)}
