"""odML 1.0 documents: spec strategy, three independent emitters (XML, JSON, YAML) and an
independent model of the documented 1.0 -> 1.1 mapping (C15, reused by C17)."""
import json
import string
import uuid
from xml.sax.saxutils import escape

import yaml
from hypothesis import strategies as st

UNSUPPORTED_VALUE = ["encoder", "checksum", "comment", "binary_file"]
UNSUPPORTED_PROP = ["mapping", "synonym", "custom_prop_el"]
UNSUPPORTED_SEC = ["mapping", "custom_sec_el", "oldfield"]
UNSUPPORTED_DOC = ["custom_doc_el", "generator"]

_WORD = st.text(alphabet=string.ascii_lowercase, min_size=1, max_size=5)
_TXT = st.one_of(_WORD, _WORD, st.tuples(_WORD, _WORD).map(" ".join),
                 st.tuples(_WORD, _WORD).map(lambda t: "%s, %s" % t),
                 st.tuples(_WORD, _WORD).map(lambda t: "%s,%s" % t),
                 _WORD.map(lambda w: 'say "%s"' % w), _WORD.map(lambda w: "[%s]" % w),
                 _WORD.map(lambda w: "%s's" % w), _WORD.map(lambda w: "ä" + w),
                 _WORD.map(lambda w: "<%s&>" % w),
                 # inner whitespace belongs to the value (only the surrounding one is trimmed)
                 st.tuples(_WORD, st.sampled_from(["  ", "\t", " \t ", "\n", "   "]), _WORD).map("".join))
_NAME = st.one_of(st.sampled_from(["a", "a", "a", "a-2", "a-2", "a-3", "b", "b-2", "c"]),
                  st.sampled_from(["a", "a", "a-2"]), _WORD)

VALUE_TEXT = {
    "string": _TXT, "text": _TXT, "person": _TXT, "url": _WORD.map(lambda w: "http://%s.org/x?a=1" % w),
    "int": st.one_of(st.integers(-999, 999), st.sampled_from([0, 0, 1])).map(str),
    "float": st.sampled_from(["1.5", "-2.25", "3.0", "1e-3", "0.0", "0.0"]),
    "boolean": st.sampled_from(["true", "false", "True", "False"]),
    "date": st.dates().map(lambda d: d.isoformat()),
    "time": st.times().map(lambda t: t.replace(microsecond=0).isoformat()),
    "datetime": st.datetimes()
                  .map(lambda d: d.replace(microsecond=0).isoformat(sep=" ")),
    "binary": _WORD,
}

IDS = st.one_of(st.none(), st.none(), st.uuids().map(str), st.uuids().map(lambda u: str(u).upper()),
                st.sampled_from(["not-an-id", "1234", ""]))


def opt(s, n=2):
    return st.one_of(*([st.none()] * n + [s]))


@st.composite
def value10(draw, dtype, first):
    # a Value element may be empty and still carry the unit / type / file name of the Property
    empty = draw(st.integers(0, 7)) == 0
    return {
        "text": "" if empty else draw(VALUE_TEXT[dtype]),
        "compact": draw(st.booleans()),
        "type": dtype if (first or draw(st.booleans())) else None,
        "type_key": draw(st.sampled_from(["type", "dtype"])),
        "unit": draw(opt(st.sampled_from(["mV", "s", "kg"]), 2)),
        "uncertainty": draw(opt(st.sampled_from(["0.5", "1", "0"]), 3)),
        "definition": draw(opt(_TXT, 3)),
        "reference": draw(opt(_TXT, 4)),
        "filename": draw(opt(_WORD.map(lambda w: w + ".dat"), 3)),
        "extra": draw(st.lists(st.tuples(st.sampled_from(UNSUPPORTED_VALUE), _WORD).map(list), max_size=2)),
    }


@st.composite
def prop10(draw):
    dtype = draw(st.sampled_from(list(VALUE_TEXT)))
    n = draw(st.sampled_from([0, 1, 1, 2, 3, 4]))
    values = [draw(value10(dtype, i == 0)) for i in range(n)]
    return {
        "name": draw(st.one_of(_NAME, _NAME, _NAME, _NAME, st.none())),
        "id": draw(IDS),
        "definition": draw(opt(_TXT, 3)),
        "dependency": draw(opt(_WORD, 4)),
        "dependency_value": draw(opt(_WORD, 4)),
        "depval_key": draw(st.sampled_from(["dependency_value", "dependencyvalue"])),
        "values": values,
        "extra": draw(st.lists(st.tuples(st.sampled_from(UNSUPPORTED_PROP), _WORD).map(list), max_size=3)),
    }


@st.composite
def sec10(draw, depth):
    return {
        "name": draw(_NAME), "type": draw(st.sampled_from(["t", "recording", "a/b"])),
        "id": draw(IDS),
        "definition": draw(opt(_TXT, 2)), "reference": draw(opt(_TXT, 4)),
        "props": draw(st.lists(prop10(), max_size=4)),
        "sections": draw(st.lists(sec10(depth - 1), max_size=3)) if depth > 0 else [],
        "extra": draw(st.lists(st.tuples(st.sampled_from(UNSUPPORTED_SEC), _WORD).map(list), max_size=3)),
    }


@st.composite
def doc10(draw, depth=2):
    return {
        "author": draw(opt(_TXT, 1)), "version": draw(opt(_WORD, 1)),
        "date": draw(opt(st.dates().map(lambda d: d.isoformat()), 1)),
        "id": draw(IDS),
        "sections": draw(st.lists(sec10(depth), max_size=3)),
        "extra": draw(st.lists(st.tuples(st.sampled_from(UNSUPPORTED_DOC), _WORD).map(list), max_size=3)),
    }


# ------------------------------------------------------------------------------------
# emitters

def _x(tag, text, ind):
    return "%s<%s>%s</%s>" % (ind, tag, escape(text), tag)


def emit_xml(doc):
    out = ['<?xml version="1.0" encoding="UTF-8"?>', '<odML version="1">']

    def val(v, ind):
        parts = ["%s<value>%s" % (ind, escape(v["text"]))]
        if v["type"]:
            parts.append(_x(v["type_key"], v["type"], ind + "  "))
        for k in ("unit", "uncertainty", "definition", "reference", "filename"):
            if v[k] is not None:
                parts.append(_x(k, v[k], ind + "  "))
        for tag, text in v["extra"]:
            parts.append(_x(tag, text, ind + "  "))
        parts.append("%s</value>" % ind)
        if v.get("compact"):
            # no whitespace between the tags: the element text of an empty Value is None
            return ind + "".join(x.strip() for x in parts)
        return "\n".join(parts)

    def prop(p, ind):
        parts = ["%s<property>" % ind]
        if p["name"] is not None:
            parts.append(_x("name", p["name"], ind + "  "))
        if p["id"] is not None:
            parts.append(_x("id", p["id"], ind + "  "))
        for tag, text in p["extra"]:
            parts.append(_x(tag, text, ind + "  "))
        for k in ("definition", "dependency"):
            if p[k] is not None:
                parts.append(_x(k, p[k], ind + "  "))
        if p["dependency_value"] is not None:
            parts.append(_x(p["depval_key"], p["dependency_value"], ind + "  "))
        for v in p["values"]:
            parts.append(val(v, ind + "  "))
        parts.append("%s</property>" % ind)
        return "\n".join(parts)

    def sec(s, ind):
        parts = ["%s<section>" % ind, _x("name", s["name"], ind + "  "), _x("type", s["type"], ind + "  ")]
        if s["id"] is not None:
            parts.append(_x("id", s["id"], ind + "  "))
        for tag, text in s["extra"]:
            parts.append(_x(tag, text, ind + "  "))
        for k in ("definition", "reference"):
            if s[k] is not None:
                parts.append(_x(k, s[k], ind + "  "))
        for p in s["props"]:
            parts.append(prop(p, ind + "  "))
        for c in s["sections"]:
            parts.append(sec(c, ind + "  "))
        parts.append("%s</section>" % ind)
        return "\n".join(parts)

    for k in ("author", "version", "date", "id"):
        if doc.get(k) is not None:
            out.append(_x(k, doc[k], "  "))
    for tag, text in doc["extra"]:
        out.append(_x(tag, text, "  "))
    for s in doc["sections"]:
        out.append(sec(s, "  "))
    out.append("</odML>")
    return "\n".join(out) + "\n"


def native(text, dtype):
    """Value-level scalars may be native in the dictionary forms."""
    if not text.strip():
        return text
    try:
        if dtype == "int":
            return int(text)
        if dtype == "float":
            return float(text)
        if dtype == "boolean":
            return text.lower() == "true"
    except ValueError:
        pass
    return text


def to_dict(doc, native_values=False):
    def val(v):
        d = {"value": v["text"]}
        if native_values and v.get("_dtype"):
            d["value"] = native(v["text"], v["_dtype"])
        if native_values and v["uncertainty"] is not None:
            v = dict(v, uncertainty=native(v["uncertainty"], "float"))
        if v["type"]:
            d[v["type_key"]] = v["type"]
        for k in ("unit", "uncertainty", "definition", "reference", "filename"):
            if v[k] is not None:
                d[k] = v[k]
        for tag, text in v["extra"]:
            d[tag] = text
        return d

    def prop(p):
        d = {}
        if p["name"] is not None:
            d["name"] = p["name"]
        if p["id"] is not None:
            d["id"] = p["id"]
        for tag, text in p["extra"]:
            d[tag] = text
        for k in ("definition", "dependency"):
            if p[k] is not None:
                d[k] = p[k]
        if p["dependency_value"] is not None:
            d[p["depval_key"]] = p["dependency_value"]
        dtype = None
        for v in p["values"]:
            if v["type"]:
                dtype = v["type"]
                break
        d["values"] = [val(dict(v, _dtype=dtype)) for v in p["values"]]
        return d

    def sec(s):
        d = {"name": s["name"], "type": s["type"]}
        if s["id"] is not None:
            d["id"] = s["id"]
        for tag, text in s["extra"]:
            d[tag] = text
        for k in ("definition", "reference"):
            if s[k] is not None:
                d[k] = s[k]
        d["properties"] = [prop(p) for p in s["props"]]
        d["sections"] = [sec(c) for c in s["sections"]]
        return d

    d = {}
    for k in ("author", "version", "date", "id"):
        if doc.get(k) is not None:
            d[k] = doc[k]
    for tag, text in doc["extra"]:
        d[tag] = text
    d["sections"] = [sec(s) for s in doc["sections"]]
    return {"Document": d, "odml-version": "1"}


def emit_json(doc, native_values=False):
    return json.dumps(to_dict(doc, native_values), indent=2)


def emit_yaml(doc, native_values=False):
    return yaml.safe_dump(to_dict(doc, native_values), default_flow_style=False)


# ------------------------------------------------------------------------------------
# model of the mapping

def valid_id(text):
    try:
        return str(uuid.UUID(text)) if text else None
    except (ValueError, AttributeError, TypeError):
        return None


def dedupe(extra):
    """A dict (JSON/YAML) cannot hold the same unsupported key twice."""
    seen, out = set(), []
    for tag, text in extra:
        if tag not in seen:
            seen.add(tag)
            out.append([tag, text])
    return out


def expected(doc, dict_form=False):
    """-> (expected 1.1 content as nested plain data, list of expected drops)

    Each drop is (kind, token): a token that must occur in some conversion log line.
    """
    drops = []

    def first(p, key, vkey=None):
        if p.get(key) is not None:
            return p[key]
        for v in p["values"]:
            if v.get(vkey or key) is not None:
                return v[vkey or key]
        return None

    def prop(p):
        extra = dedupe(p["extra"]) if dict_form else p["extra"]
        for tag, text in extra:
            drops.append(("unsupported", tag))
        dtype = None
        for v in p["values"]:
            if v["type"]:
                dtype = v["type"]
                break
        if dtype == "binary":
            dtype = "text"
        for v in p["values"]:
            vextra = dedupe(v["extra"]) if dict_form else v["extra"]
            for tag, text in vextra:
                drops.append(("unsupported", tag))
        return {"name": p["name"], "id": valid_id(p["id"]), "dtype": dtype,
                "values": [v["text"].strip() for v in p["values"] if v["text"].strip()],
                "unit": first(p, "unit"), "uncertainty": first(p, "uncertainty"),
                "definition": first(p, "definition"), "reference": first(p, "reference"),
                "value_origin": first(p, "value_origin", "filename"),
                "dependency": p["dependency"], "dependency_value": p["dependency_value"]}

    def sec(s):
        extra = dedupe(s["extra"]) if dict_form else s["extra"]
        for tag, text in extra:
            drops.append(("unsupported", tag))
        props = []
        for p in s["props"]:
            if p["name"] is None:
                drops.append(("unnamed", "without name"))
                continue
            props.append(prop(p))
        return {"name": s["name"], "type": s["type"], "id": valid_id(s["id"]),
                "definition": s["definition"], "reference": s["reference"],
                "props": props, "sections": [sec(c) for c in s["sections"]]}

    extra = dedupe(doc["extra"]) if dict_form else doc["extra"]
    for tag, text in extra:
        drops.append(("unsupported", tag))
    exp = {"author": doc.get("author"), "version": doc.get("version"), "date": doc.get("date"),
           "id": valid_id(doc.get("id")), "sections": [sec(s) for s in doc["sections"]]}
    return exp, drops
