"""Independent model of the cardinality normal form (C09)."""


def is_nat(x):
    return isinstance(x, int) and not isinstance(x, bool) and x >= 0


def classify(setting):
    """-> ('valid', (eff_min, eff_max)) | ('invalid', None) | ('either', None)

    eff_min is an int >= 0, eff_max an int > 0 or None.  'either': falsy-but-odd inputs
    for which the documentation ("empty values reset") allows a reset or a ValueError.
    """
    s = setting
    if s is None:
        return "valid", (0, None)
    if isinstance(s, bool):
        return "either", None
    if isinstance(s, int):
        if s > 0:
            return "valid", (0, s)
        if s == 0:
            return "valid", (0, None)
        return "invalid", None
    if isinstance(s, float):
        return ("either", None) if s == 0.0 else ("invalid", None)
    if isinstance(s, str):
        return ("either", None) if s == "" else ("invalid", None)
    if isinstance(s, (tuple, list)):
        if len(s) == 0:
            return "either", None
        if len(s) != 2:
            return "invalid", None
        a, b = s
        if isinstance(a, bool) or isinstance(b, bool):
            return "either", None
        ok_a = a is None or is_nat(a)
        ok_b = b is None or is_nat(b)
        if not (ok_a and ok_b):
            # odd falsy members (0.0, '') are outside the grid's clear cases
            if (a in (0.0, "") or ok_a) and (b in (0.0, "") or ok_b) and \
                    not (isinstance(a, int) and a < 0) and not (isinstance(b, int) and b < 0):
                return "either", None
            return "invalid", None
        emin = a or 0
        emax = b or None
        if emax is not None and emin > emax:
            return "invalid", None
        return "valid", (emin, emax)
    return "invalid", None


def normal_form_ok(stored):
    """Stored value is None or a 2-tuple (min, max) of naturals/None, min<=max, not both empty."""
    if stored is None:
        return True
    if not isinstance(stored, tuple) or len(stored) != 2:
        return False
    a, b = stored
    if not ((a is None or is_nat(a)) and (b is None or is_nat(b))):
        return False
    if not a and not b:
        return False
    if a is not None and b is not None and a > b:
        return False
    return True


def effective(stored):
    if stored is None:
        return 0, None
    a, b = stored
    return (a or 0), (b or None)


def violated(stored, count):
    emin, emax = effective(stored)
    return count < emin or (emax is not None and count > emax)
