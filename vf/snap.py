"""Typed snapshots of odml object graphs.

* ``content(obj)``: identity-free nested image (for round trips); ``normalize`` applies the
  slack a property grants (whitespace trimming for XML, sibling order for RDF, ...);
  ``diff`` lists the differing paths.
* ``identity(objs)``: image keyed by Python object identity over a *universe* of objects
  (for "nothing changed").

Attributes are read through the public properties.  Children are walked with a visited
set, never with a library traversal that might not terminate.
"""
import datetime as dt

from odml.doc import BaseDocument
from odml.property import BaseProperty
from odml.section import BaseSection

DOC_ATTRS = ("author", "version", "date", "repository")
SEC_ATTRS = ("name", "type", "definition", "reference", "repository", "link", "include")
PROP_ATTRS = ("name", "unit", "uncertainty", "definition", "reference", "dependency",
              "dependency_value", "value_origin")


def tv(x):
    """Typed, JSON-able image of a scalar / value."""
    if x is None:
        return ["none"]
    if isinstance(x, bool):
        return ["bool", x]
    if isinstance(x, int):
        return ["int", str(x)]
    if isinstance(x, float):
        return ["float", x.hex() if x == x else "nan"]
    if isinstance(x, str):
        # str subclasses (enum members) are marked: they are not plain text
        if type(x) is not str:
            return ["str:" + type(x).__name__, str.__str__(x)]
        return ["str", x]
    if isinstance(x, dt.datetime):
        return ["datetime", x.isoformat()]
    if isinstance(x, dt.date):
        return ["date", x.isoformat()]
    if isinstance(x, dt.time):
        return ["time", x.isoformat()]
    if isinstance(x, (list, tuple)):
        return [type(x).__name__, [tv(i) for i in x]]
    return ["other:" + type(x).__name__, repr(x)]


def kind(obj):
    if isinstance(obj, BaseDocument):
        return "doc"
    if isinstance(obj, BaseSection):
        return "sec"
    if isinstance(obj, BaseProperty):
        return "prop"
    return "other"


def _card(c):
    return tv(c)


def prop_image(p):
    img = {"k": "prop", "id": tv(p.id), "dtype": tv(p.dtype),
           "values": [tv(v) for v in p.values],
           "val_card": _card(p.val_cardinality)}
    for a in PROP_ATTRS:
        img[a] = tv(getattr(p, a))
    return img


def sec_image(s, _seen=None):
    _seen = _seen if _seen is not None else set()
    img = {"k": "sec", "id": tv(s.id), "sec_card": _card(s.sec_cardinality),
           "prop_card": _card(s.prop_cardinality), "is_merged": bool(s.is_merged)}
    for a in SEC_ATTRS:
        img[a] = tv(getattr(s, a))
    img["props"] = [prop_image(p) for p in list.__iter__(s.properties)]
    img["sections"] = _children(s, _seen)
    return img


def _children(parent, seen):
    out = []
    for c in list.__iter__(parent.sections):
        if id(c) in seen:
            out.append({"k": "cycle", "id": tv(getattr(c, "id", None))})
            continue
        seen.add(id(c))
        out.append(sec_image(c, seen))
    return out


def doc_image(d):
    seen = set()
    img = {"k": "doc", "id": tv(d.id)}
    for a in DOC_ATTRS:
        img[a] = tv(getattr(d, a))
    img["sections"] = _children(d, seen)
    return img


def content(obj):
    k = kind(obj)
    if k == "doc":
        return doc_image(obj)
    if k == "sec":
        return sec_image(obj, {id(obj)})
    if k == "prop":
        return prop_image(obj)
    raise TypeError(type(obj))


# ------------------------------------------------------------------------------------
# normalisation

TEXT_ATTRS = {"author", "version", "repository", "name", "type", "definition", "reference",
              "link", "include", "unit", "dependency", "dependency_value", "value_origin"}


def _trim_tv(t):
    if t[0] == "str":
        s = t[1].strip()
        return ["none"] if s == "" else ["str", s]
    return t


def _empty_to_none(t):
    if t[0] == "str" and t[1] == "":
        return ["none"]
    return t


def _num(t):
    """uncertainty: compared by numeric value when it is a number."""
    if t[0] == "int":
        return ["num", float(int(t[1])).hex()]
    if t[0] == "float":
        return ["num", t[1]]
    return t


def normalize(img, trim=False, ids=True, order=True, merged=True, attrs=None,
              dtype_str=True):
    """Return a normalised deep copy of a content image.

    trim       strip surrounding whitespace of every text attribute and text value
               (what the XML form does not keep); empty-after-strip attribute == unset
    ids        keep ids
    order      keep sibling order (False: sort siblings by name)
    attrs      if given: restrict to these attribute names (plus structure)
    dtype_str  compare dtype by its text (DType members equal their names)
    """
    out = {}
    k = img["k"]
    for key, val in img.items():
        if key in ("sections", "props", "values", "k"):
            continue
        if key == "id":
            if ids:
                out[key] = val
            continue
        if key == "is_merged":
            if merged:
                out[key] = val
            continue
        if attrs is not None and key not in attrs:
            continue
        t = val
        if key in TEXT_ATTRS:
            t = _empty_to_none(t)
            if trim:
                t = _trim_tv(t)
        if key == "uncertainty":
            t = _num(t)
        if key == "dtype" and dtype_str and t[0].startswith("str"):
            t = ["str", t[1]]
        out[key] = t
    out["k"] = k
    if k == "prop":
        vals = img["values"]
        if trim:
            vals = [(["str", v[1].strip()] if v[0] == "str" else v) for v in vals]
        if attrs is None or "values" in attrs:
            out["values"] = vals
    if "props" in img:
        ps = [normalize(p, trim, ids, order, merged, attrs, dtype_str) for p in img["props"]]
        if not order:
            ps.sort(key=lambda p: repr(p.get("name")))
        out["props"] = ps
    if "sections" in img:
        ss = [normalize(s, trim, ids, order, merged, attrs, dtype_str) for s in img["sections"]]
        if not order:
            ss.sort(key=lambda s: repr(s.get("name")))
        out["sections"] = ss
    return out


def diff(a, b, path="", out=None, limit=8):
    """List of (path, key, a_value, b_value, kind) differences between two images."""
    out = out if out is not None else []
    if len(out) >= limit:
        return out
    if a.get("k") != b.get("k"):
        out.append((path, "k", a.get("k"), b.get("k"), a.get("k")))
        return out
    k = a["k"]
    here = path + "/" + str((a.get("name") or ["", "?"])[1] if isinstance(a.get("name"), list) and len(a.get("name")) > 1 else k)
    for key in sorted(set(a) | set(b)):
        if key in ("sections", "props"):
            continue
        if a.get(key) != b.get(key):
            out.append((here, key, a.get(key), b.get(key), k))
            if len(out) >= limit:
                return out
    for lst in ("props", "sections"):
        la, lb = a.get(lst, []), b.get(lst, [])
        if len(la) != len(lb):
            out.append((here, lst + ".len", len(la), len(lb), k))
            continue
        for x, y in zip(la, lb):
            diff(x, y, here, out, limit)
    return out


# ------------------------------------------------------------------------------------
# identity snapshot over a universe

def identity(universe):
    """Image keyed by position in ``universe`` (objects compared by identity)."""
    index = {id(o): i for i, o in enumerate(universe)}

    def ref(o):
        if o is None:
            return None
        return index.get(id(o), "foreign:%s" % type(o).__name__)

    out = []
    for o in universe:
        k = kind(o)
        if k == "doc":
            img = {"k": k, "id": o.id, "sections": [ref(c) for c in list.__iter__(o.sections)]}
            for a in DOC_ATTRS:
                img[a] = tv(getattr(o, a))
        elif k == "sec":
            img = {"k": k, "id": o.id, "parent": ref(o._parent),
                   "sections": [ref(c) for c in list.__iter__(o.sections)],
                   "props": [ref(c) for c in list.__iter__(o.properties)],
                   "sec_card": tv(o.sec_cardinality), "prop_card": tv(o.prop_cardinality),
                   "merged": ref(o._merged) if o._merged is not None else None}
            for a in SEC_ATTRS:
                img[a] = tv(getattr(o, a))
        elif k == "prop":
            img = {"k": k, "id": o.id, "parent": ref(o._parent), "dtype": tv(o.dtype),
                   "values": [tv(v) for v in o.values],
                   "val_card": tv(o.val_cardinality)}
            for a in PROP_ATTRS:
                img[a] = tv(getattr(o, a))
        else:
            img = {"k": "other"}
        out.append(img)
    return out


def identity_diff(a, b, limit=6):
    out = []
    for i, (x, y) in enumerate(zip(a, b)):
        if x != y:
            for key in sorted(set(x) | set(y)):
                if x.get(key) != y.get(key):
                    out.append((i, x.get("k"), key, x.get(key), y.get(key)))
                    if len(out) >= limit:
                        return out
    if len(a) != len(b):
        out.append((-1, "universe", "len", len(a), len(b)))
    return out


def reachable(roots):
    """All Documents/Sections/Properties reachable from the roots (identity walk)."""
    seen = {}
    stack = list(roots)
    while stack:
        o = stack.pop()
        if id(o) in seen:
            continue
        seen[id(o)] = o
        if kind(o) in ("doc", "sec"):
            stack.extend(list.__iter__(o.sections))
        if kind(o) == "sec":
            stack.extend(list.__iter__(o.properties))
    return list(seen.values())
