"""What the JSON fuzz target accepts as 'shaped like an odML dictionary'."""

SCALARS = (str, int, float, bool, type(None))


def shaped(root):
    """Is the parsed JSON 'shaped like an odML dictionary'?  A mapping with a 'Document' mapping;
    'sections' / 'properties' may hold anything (the reader reports it); every other entry is a scalar, a
    list of scalars or a flat mapping - arbitrarily nested leaf content is outside the property."""
    def leaf(v):
        if isinstance(v, SCALARS):
            return True
        if isinstance(v, list):
            return all(isinstance(x, SCALARS) for x in v)
        if isinstance(v, dict):
            return all(isinstance(x, SCALARS) for x in v.values())
        return False

    def node(d, depth):
        if depth > 12:
            return False
        for k, v in d.items():
            if k in ("sections", "properties"):
                if isinstance(v, list):
                    for x in v:
                        if isinstance(x, dict) and not node(x, depth + 1):
                            return False
                        if not isinstance(x, dict) and not leaf(x):
                            return False
                elif not leaf(v):
                    return False
            elif not leaf(v):
                return False
        return True
    return isinstance(root, dict) and isinstance(root.get("Document"), dict) and \
        leaf(root.get("odml-version")) and node(root["Document"], 0)
