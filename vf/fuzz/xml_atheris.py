"""Driver of the atheris campaigns for C16 (thorough tier)."""
import glob
import os
import re
import subprocess
import sys

from .. import env
from ..core import failure

HERE = os.path.dirname(os.path.abspath(__file__))
DICT = ['"<odML"', '"version=\\"1.1\\""', '"<section>"', '"</section>"', '"<property>"', '"</property>"',
        '"<name>"', '"</name>"', '"<type>"', '"</type>"', '"<value>"', '"</value>"', '"<id>"', '"<date>"',
        '"<?xml"', '"<!--"', '"<![CDATA["', '"&amp;"', '"<?pi?>"', '"[1,2]"', '"(1;2)"', '"2-tuple"',
        '"_cardinality>"', '"(1, 2)"', '"xmlns"']


def _run(mode, runs, seed, corpus, workdir, timeout):
    art = os.path.join(workdir, "artifacts-%s-%s/" % (mode, "seeded" if corpus else "empty"))
    os.makedirs(art)
    cdir = os.path.join(workdir, "corpus-%s-%s" % (mode, "seeded" if corpus else "empty"))
    os.makedirs(cdir)
    for i, data in enumerate(corpus or []):
        with open(os.path.join(cdir, "seed%d" % i), "wb") as fh:
            fh.write(data)
    dpath = os.path.join(workdir, "odml-%s.dict" % mode)
    with open(dpath, "w") as fh:
        fh.write("\n".join(JSON_DICT if mode == "json" else DICT) + "\n")
    cmd = [sys.executable, os.path.join(HERE, "xml_target.py"), mode, cdir,
           "-runs=%d" % runs, "-seed=%d" % (seed % (2 ** 31) or 1), "-artifact_prefix=" + art,
           "-max_len=2048", "-timeout=30", "-dict=" + dpath, "-print_final_stats=1"]
    envv = dict(os.environ)
    envv["VF_NOSILENCE"] = ""
    proc = subprocess.run(cmd, capture_output=True, text=True, timeout=timeout, env=envv, cwd=workdir,
                          errors="replace")
    out = proc.stderr + proc.stdout
    done = re.findall(r"stat::number_of_executed_units:\s*(\d+)", out)
    cov = re.findall(r"cov: (\d+)", out)
    crashes = sorted(glob.glob(art + "*"))
    return {"mode": mode, "corpus": "seeded" if corpus else "empty", "rc": proc.returncode,
            "executed": int(done[-1]) if done else 0, "cov": int(cov[-1]) if cov else 0,
            "crashes": crashes, "tail": out[-1500:]}


JSON_DICT = ['"\\"Document\\""', '"\\"odml-version\\""', '"\\"1.1\\""', '"\\"sections\\""', '"\\"properties\\""',
             '"\\"name\\""', '"\\"type\\""', '"\\"value\\""', '"\\"id\\""', '"\\"unit\\""', '"\\"uncertainty\\""',
             '"\\"val_cardinality\\""', '"\\"sec_cardinality\\""', '"\\"prop_cardinality\\""', '"\\"link\\""',
             '"\\"date\\""', '"\\"dependency\\""', '"null"', '"[1,2]"', '"[]"', '"{}"', '"\\"2-tuple\\""',
             '"\\"(1;2)\\""', '"\\"int\\""', '"\\"date\\""']


def json_corpus():
    return [b'{"Document": {"author": "a", "sections": [{"name": "s", "type": "t", "properties": [{"name": "p", '
            b'"value": [1, 2], "type": "int", "unit": "mV", "val_cardinality": [1, 3]}], "sections": [{"name": "c", '
            b'"type": "t", "sec_cardinality": [null, 2]}]}]}, "odml-version": "1.1"}',
            b'{"Document": {"sections": [{"name": "s", "type": "t", "id": "1a2b3c4d-0000-4000-8000-00000000000a", '
            b'"properties": [{"name": "p", "value": ["(1;2)"], "type": "2-tuple"}, {"name": "d", "value": '
            b'["2020-01-01"], "type": "date"}]}]}, "odml-version": "1.1"}',
            b'{"Document": {}, "odml-version": "1.1"}']


def seed_corpus():
    repo = os.environ.get("VERIF_REPO", "/repo")
    out = []
    for p in sorted(glob.glob(os.path.join(repo, "test", "resources", "*.xml")))[:12]:
        with open(p, "rb") as fh:
            data = fh.read()
        if len(data) <= 2048:
            out.append(data)
    out.append(b'<odML version="1.1"><section><name>s</name><type>t</type><property><name>p</name>'
               b'<value>[1,2]</value><type>int</type></property></section></odML>')
    return out


def campaign(ctx, runs, seed, part=None):
    try:
        import atheris  # noqa
    except ImportError:
        ctx.notes.append("atheris is not installed: the libFuzzer campaign was skipped")
        ctx.extra["atheris_executions"] = 0
        return
    workdir = env.fresh_dir("atheris")
    total = 0
    summaries = []
    plan = [("raw", runs // 2, None), ("raw", runs // 4, seed_corpus()), ("struct", runs // 4, None),
            ("json", runs, json_corpus())]   # an empty corpus never gets past json.loads (no gradient in C code)
    if part is not None:
        plan = plan[part:part + 1]
    for mode, n, corpus in plan:
        res = _run(mode, max(n, 1000), seed, corpus, workdir, timeout=3600)
        total += res["executed"]
        summaries.append({k: res[k] for k in ("mode", "corpus", "executed", "cov", "rc")})
        for c in res["crashes"][:3]:
            with open(c, "rb") as fh:
                data = fh.read()
            case = {"mode": mode, "data_hex": data.hex()}
            fails = replay(case)
            if not fails:
                fails = [failure("reader.fuzz_crash", "libFuzzer reported a crash that does not reproduce: %s"
                                 % res["tail"][-300:], mode=mode)]
            unmatched = ctx.case(case, True, ["atheris:crash"], fails, kind="atheris")
            if unmatched:
                ctx.violation("atheris", case, unmatched)
        if res["rc"] != 0 and not res["crashes"]:
            ctx.notes.append("atheris %s/%s ended with rc=%s: %s" % (mode, res["corpus"], res["rc"],
                                                                     res["tail"][-300:]))
    ctx.tick(total, ["atheris:executions"])
    ctx.extra["atheris_executions"] = total
    ctx.extra["atheris_campaigns"] = summaries
    ctx.sample({"kind": "atheris", "campaigns": summaries})
    env.rm(workdir)


def replay(case):
    """Re-run one saved fuzzer input through the C16 oracle (no atheris needed)."""
    from ..checks import c16
    data = bytes.fromhex(case["data_hex"])
    if case.get("mode") == "json":
        return replay_json(data)
    if case.get("mode") == "struct":
        return [failure("reader.fuzz_crash", "structured libFuzzer input (replay through the fuzz target)",
                        mode="struct")]
    try:
        text = data.decode("utf-8")
    except UnicodeDecodeError:
        return []
    fails = []
    for lenient in (False, True):
        fails.extend(c16.arbitrary_body((text, lenient, False))[2])
    return fails


def replay_json(data):
    """The JSON fuzz target's oracle as a plain function."""
    import copy
    import json
    from odml.tools.dict_parser import DictReader
    from ..checks import c16
    from .shape import shaped
    try:
        root = json.loads(data.decode("utf-8"))
    except (UnicodeDecodeError, ValueError, RecursionError):
        return []
    if not shaped(root):
        return []
    fails = []
    for lenient in (False, True):
        res, exc = c16.guarded(lambda: DictReader(show_warnings=False, ignore_errors=lenient)
                               .to_odml(copy.deepcopy(root)))
        c16.judge(res, exc, "dictionary reader (fuzzed JSON)", fails,
                  lenient_must_succeed=bool(lenient and root.get("odml-version") == "1.1"),
                  gen="atheris-json", lenient=lenient)
    return fails
