"""libFuzzer (atheris) target for the XML reader; run as a script by vf.fuzz.xml_atheris.

usage: xml_target.py <mode> <artifact_dir> [libFuzzer args...]
mode: raw    - bytes are decoded as UTF-8 text and given to the reader
      json   - bytes are decoded and parsed as JSON; odML-shaped dictionaries go to the dictionary reader
      struct - bytes drive the Hypothesis grammar of C16 (fuzz_one_input)
The oracle is inside the target: any outcome other than a Document satisfying the tree/name
invariants or a ParserException aborts the process and libFuzzer saves the input.
"""
import os
import sys

import atheris

with atheris.instrument_imports(include=["odml"]):
    import odml  # noqa
    from odml.tools.xmlparser import XMLReader
    from odml.tools.parser_utils import ParserException

sys.path.insert(0, os.path.dirname(os.path.dirname(os.path.dirname(os.path.abspath(__file__)))))
from vf import env, inv, snap  # noqa


class OracleFailure(Exception):
    pass


def check_text(text):
    for lenient in (False, True):
        env.reset_lib_state()
        try:
            doc = XMLReader(ignore_errors=lenient, show_warnings=False).from_string(text)
        except ParserException:
            continue
        if not isinstance(doc, odml.doc.BaseDocument):
            raise OracleFailure("returned %r" % type(doc))
        objs = snap.reachable([doc])
        bad = inv.tree_failures(objs) or inv.name_failures(objs)
        if bad:
            raise OracleFailure("bad document: %s" % bad[0]["detail"])


def raw_one_input(data):
    try:
        text = data.decode("utf-8")
    except UnicodeDecodeError:
        return
    check_text(text)


from vf.fuzz.shape import shaped  # noqa


def json_one_input(data):
    import copy
    import json
    from odml.tools.dict_parser import DictReader
    from odml.tools.odmlparser import ODMLReader
    try:
        text = data.decode("utf-8")
        root = json.loads(text)
    except (UnicodeDecodeError, ValueError, RecursionError):
        return
    if not shaped(root):
        return
    for lenient in (False, True):
        env.reset_lib_state()
        try:
            doc = DictReader(show_warnings=False, ignore_errors=lenient).to_odml(copy.deepcopy(root))
        except ParserException:
            if lenient and root.get("odml-version") == "1.1":
                raise OracleFailure("lenient dictionary reader raised on a current-version dictionary")
            continue
        check_doc(doc)
    try:
        check_doc(ODMLReader("JSON", show_warnings=False).from_string(text))
    except ParserException:
        pass


def check_doc(doc):
    if not isinstance(doc, odml.doc.BaseDocument):
        raise OracleFailure("returned %r" % type(doc))
    objs = snap.reachable([doc])
    bad = inv.tree_failures(objs) or inv.name_failures(objs)
    if bad:
        raise OracleFailure("bad document: %s" % bad[0]["detail"])


def main():
    mode = sys.argv[1]
    argv = [sys.argv[0]] + sys.argv[2:]
    # the library prints to stdout; libFuzzer reports on stderr
    devnull = os.open(os.devnull, os.O_WRONLY)
    os.dup2(devnull, 1)
    import warnings
    warnings.simplefilter("ignore")
    if mode == "raw":
        atheris.Setup(argv, raw_one_input)
    elif mode == "json":
        atheris.Setup(argv, json_one_input)
    else:
        from hypothesis import given, settings, HealthCheck
        from vf.checks import c16

        @settings(database=None, deadline=None, suppress_health_check=list(HealthCheck))
        @given(c16.grammar_case())
        def test(case):
            check_text(case["text"])
        atheris.Setup(argv, test.hypothesis.fuzz_one_input)
    atheris.Fuzz()


if __name__ == "__main__":
    main()
