"""Collector for cases, failures, classes and samples; canonical encoding of cases."""
import collections
import datetime as dt
import hashlib
import json

from . import findings


def _default(o):
    if isinstance(o, (dt.date, dt.time, dt.datetime)):
        return {"$" + type(o).__name__: o.isoformat()}
    if isinstance(o, (set, frozenset)):
        return sorted(o, key=repr)
    if isinstance(o, tuple):
        return list(o)
    if isinstance(o, bytes):
        return {"$bytes": o.hex()}
    return {"$repr": repr(o)}


def canon(case):
    """Canonical text of a (JSON-able) case; used for hashing and equality."""
    return json.dumps(case, sort_keys=True, default=_default, ensure_ascii=True,
                      allow_nan=True)


def digest(case):
    return hashlib.sha1(canon(case).encode("utf-8", "surrogatepass")).hexdigest()[:20]


def jsonable(case):
    return json.loads(canon(case))


def truncate(obj, limit=1500):
    text = canon(obj)
    if len(text) <= limit:
        return json.loads(text)
    return {"truncated": text[:limit] + "...", "full_len": len(text)}


def failure(clause, detail, **locus):
    """A failed oracle clause. ``locus`` describes *where/what* (for finding matchers)."""
    return {"clause": clause, "detail": str(detail)[:600], "locus": locus}


class Collector(object):
    """Per-shard accumulator; ``export()`` is picklable and merged by the parent."""

    MAX_SAMPLES = 4

    def __init__(self, prop, shard_name="", seed=0, tier="quick"):
        self.prop = prop
        self.shard_name = shard_name
        self.seed = seed
        self.tier = tier
        self.evaluations = 0
        self.nt = set()
        self.samples = []
        self.classes = collections.Counter()
        self.known_hits = collections.Counter()
        self.known_cases = {}
        self.violations = []
        self.excluded = collections.Counter()
        self.extra = {}
        self.notes = []

    # ------------------------------------------------------------------
    def case(self, case, nontrivial, classes, failures, count=True, kind=None):
        """Record one evaluated case. Returns the list of failures that no known finding
        absorbs (empty list = the property held on this case)."""
        if count:
            self.evaluations += 1
            for c in classes or ():
                self.classes[c] += 1
            if nontrivial:
                d = digest(case)
                if d not in self.nt:
                    self.nt.add(d)
                    if len(self.samples) < self.MAX_SAMPLES:
                        self.samples.append(truncate({"kind": kind or self.shard_name,
                                                      "case": case}))
        unmatched = []
        for f in failures or ():
            fid = findings.match(self.prop, f)
            if fid is None:
                unmatched.append(f)
            else:
                if count:
                    self.known_hits[fid] += 1
                    if fid not in self.known_cases:
                        self.known_cases[fid] = truncate({"case": case, "failure": f}, 3000)
        return unmatched

    def tick(self, n=1, classes=()):
        """Count evaluations that are not individually recorded (enumerated grids)."""
        self.evaluations += n
        for c in classes:
            self.classes[c] += n

    def add_nt(self, key):
        self.nt.add(hashlib.sha1(repr(key).encode("utf-8", "surrogatepass")).hexdigest()[:20])

    def sample(self, obj):
        if len(self.samples) < self.MAX_SAMPLES:
            self.samples.append(truncate(obj))

    def violation(self, kind, case, failures):
        self.violations.append({"kind": kind, "case": jsonable(case),
                                "failures": jsonable(failures)})

    def export(self):
        return {
            "shard": self.shard_name,
            "evaluations": self.evaluations,
            "nt": self.nt,
            "samples": self.samples,
            "classes": dict(self.classes),
            "known_hits": dict(self.known_hits),
            "known_cases": self.known_cases,
            "violations": self.violations,
            "excluded": dict(self.excluded),
            "extra": self.extra,
            "notes": self.notes,
        }
