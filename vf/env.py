"""Process environment for workers: silencing, scratch directory, library state reset."""
import contextlib
import os
import shutil
import sys
import tempfile
import warnings

_SCRATCH = None


def silence():
    """Redirect fd 1 and 2 of this (worker) process to /dev/null.

    The library prints from constructors, setters and parsers; only the parent process
    prints the protocol lines.
    """
    if os.environ.get("VF_STACKS"):
        import faulthandler
        import signal
        faulthandler.register(signal.SIGUSR1, file=open("/tmp/vf-stack-%d.txt" % os.getpid(), "w"),
                              all_threads=True)
    if os.environ.get("VF_NOSILENCE"):
        return
    devnull = os.open(os.devnull, os.O_WRONLY)
    sys.stdout.flush()
    sys.stderr.flush()
    os.dup2(devnull, 1)
    os.dup2(devnull, 2)
    os.close(devnull)
    warnings.simplefilter("ignore")


def scratch():
    """Create (once per process) a private scratch dir; point tempfile and cwd into it.

    The library derives its ``odml.cache`` directory from ``tempfile.gettempdir()`` so this
    also isolates the cache.
    """
    global _SCRATCH
    if _SCRATCH is None:
        base = os.environ.get("VERIF_SCRATCH") or os.environ.get("TMPDIR") or "/tmp"
        _SCRATCH = tempfile.mkdtemp(prefix="vf-odml-", dir=base)
        tempfile.tempdir = _SCRATCH
        os.chdir(_SCRATCH)
    return _SCRATCH


def cleanup():
    global _SCRATCH
    if _SCRATCH is not None:
        try:
            os.chdir("/")
        except OSError:
            pass
        shutil.rmtree(_SCRATCH, ignore_errors=True)
        _SCRATCH = None
        tempfile.tempdir = None


_counter = [0]


def fresh_dir(prefix="d"):
    """A fresh sub-directory of the scratch dir."""
    root = scratch()
    _counter[0] += 1
    path = os.path.join(root, "%s%06d" % (prefix, _counter[0]))
    os.makedirs(path)
    return path


def rm(path):
    shutil.rmtree(path, ignore_errors=True)


_HANDLERS0 = None


def handlers_snapshot():
    from odml.validation import Validation
    return {k: frozenset(v) for k, v in Validation._handlers.items()}


def reset_lib_state():
    """Reset the library's process-wide tables before a case."""
    global _HANDLERS0
    import odml.terminology as term
    import odml.templates as templ
    from odml.validation import Validation
    dict.clear(term.terminologies)
    term.Terminologies.loading.clear()
    term.terminologies.reload_cache = False
    templ.TemplateHandler.loading.clear()
    if _HANDLERS0 is None:
        _HANDLERS0 = handlers_snapshot()
    else:
        cur = handlers_snapshot()
        if cur != _HANDLERS0:
            Validation._handlers = {k: set(v) for k, v in _HANDLERS0.items()}


@contextlib.contextmanager
def quiet_warnings():
    with warnings.catch_warnings():
        warnings.simplefilter("ignore")
        yield


# ------------------------------------------------------------------------------------
# watchdog: a library call that does not return is an outcome, not a reason for the check to hang

HANG_SECONDS = int(os.environ.get("VF_HANG_SECONDS", "240"))


class CaseHang(BaseException):
    """Raised (by SIGALRM, in the worker's main thread) inside a case that does not return.

    A BaseException, so that ``except Exception`` in the code under test does not swallow it; the
    timer fires again every few seconds in case a bare ``except:`` did."""


def _on_alarm(signum, frame):
    raise CaseHang()


@contextlib.contextmanager
def watchdog(seconds=None):
    import signal
    import threading
    if threading.current_thread() is not threading.main_thread():
        yield
        return
    old = signal.signal(signal.SIGALRM, _on_alarm)
    signal.setitimer(signal.ITIMER_REAL, seconds or HANG_SECONDS, 5.0)
    try:
        yield
    finally:
        signal.setitimer(signal.ITIMER_REAL, 0)
        signal.signal(signal.SIGALRM, old)
