"""Known findings: read-only at run time.

An *open* entry absorbs only failures whose clause equals the entry's clause and whose
``locus`` satisfies the entry's matcher predicate (evaluated on the input locus, never on
"the check failed"). A *fixed* entry absorbs nothing.
"""
import json
import os

HERE = os.path.dirname(os.path.dirname(os.path.abspath(__file__)))
PATH = os.path.join(HERE, "known_findings.json")

_cache = None


def entries():
    global _cache
    if _cache is None:
        if os.path.exists(PATH):
            with open(PATH) as fh:
                _cache = json.load(fh).get("findings", [])
        else:
            _cache = []
    return _cache


def open_for(prop):
    return [e for e in entries() if e.get("property") == prop and e.get("status") == "open"]


# ----------------------------------------------------------------------------------
# matcher predicates: (locus, params) -> bool

def _always(locus, params):
    return True


def _locus_equals(locus, params):
    """Every key given in params must be present in the locus with an equal value."""
    for k, v in params.items():
        if locus.get(k) != v:
            return False
    return True


def _locus_in(locus, params):
    """params: {key: [allowed values]} - every listed key must have an allowed value."""
    for k, allowed in params.items():
        if locus.get(k) not in allowed:
            return False
    return True


def _locus_multi(locus, params):
    """params: {"equals": {...}, "in": {...}} - both parts must hold."""
    return _locus_equals(locus, params.get("equals", {})) and _locus_in(locus, params.get("in", {}))


MATCHERS = {
    "locus_multi": _locus_multi,
    "always": _always,
    "locus_equals": _locus_equals,
    "locus_in": _locus_in,
}


def match(prop, failure):
    for e in open_for(prop):
        clauses = e.get("clauses") or [e.get("clause")]
        if failure["clause"] not in clauses:
            continue
        pred = MATCHERS[e.get("matcher", "locus_equals")]
        try:
            if pred(failure.get("locus", {}), e.get("params", {})):
                return e["id"]
        except Exception:
            continue
    return None
