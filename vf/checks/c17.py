"""C17 - batch conversion tools never touch their inputs and isolate bad files."""
import contextlib
import hashlib
import io
import os
import sys

import rdflib
from hypothesis import strategies as st

import odml
from odml.scripts import odml_convert, odml_to_rdf
from odml.tools.converters import FormatConverter
from odml.tools.xmlparser import XMLReader

from .. import build, env, hyp, snap, spec as S
from ..core import failure
from ..model import conv10
from . import c15

PROPERTY = "C17"
LEVEL = "fault_enumeration"
RULE = ("Hypothesis-generated directory trees in the scratch dir: 1-7 files of kinds {valid 1.0 XML/JSON/YAML, "
        "valid 1.1 XML/JSON/YAML, empty, non-XML text, malformed XML, XML of another vocabulary} with unique "
        "base names, any order (file names carry a drawn sort key) and nesting depth <= 2, directory names "
        "incl. regex metacharacters; x tool (odmlconvert main, odmltordf main, FormatConverter.convert / "
        "convert_dir) x recursive on/off x explicit (distinct, existing) / implicit output directory x every "
        "target format of the format converter except trix. Oracle: SHA-256 of every input file and the "
        "listing of the input tree unchanged; every created path lies under the output location (new "
        "odmlconv_* directory in cwd / <input>_<format> / the given directory); each output loads with the "
        "strict reader (or parses with rdflib) and carries the content of its source (C15 model for 1.0 "
        "sources, snapshot equality for 1.1 sources); the two command line tools return normally, report "
        "every bad file and give every convertible file its output. Non-trivial = a tree in which a bad file "
        "sorts before a convertible one")
ASSUMPTIONS = ["base names are unique within a tree", "for the format converter only files of the kind its "
               "target format accepts are required to be converted; with other files it may raise, inputs "
               "must still be untouched", "odmlconvert skips files that are already odML 1.1"]

KINDS = ["v10_xml", "v10_json", "v10_yaml", "v11_xml", "v11_json", "v11_yaml", "empty", "text",
         "malformed", "other_vocab", "v10_nameless_section"]
BAD = {"empty", "text", "malformed", "other_vocab", "v10_nameless_section"}
EXT = {"v10_xml": [".xml", ".odml"], "v10_json": [".json"], "v10_yaml": [".yaml"],
       "v11_xml": [".xml", ".odml"], "v11_json": [".json"], "v11_yaml": [".yaml"]}
RDF_FORMATS = ["xml", "pretty-xml", "n3", "turtle", "ttl", "ntriples", "nt", "nt11", "trig", "json-ld"]
DIRNAMES = ["in", "in put", "in+put", "data(1)", "a.b", "x[1]", "ünï", "100%dir", "a%sb"]
SUBDIRS = ["sub", "s+1", "deep er", "p%s", "only dirs/nested"]


@st.composite
def file_spec(draw, i):
    kind = draw(st.sampled_from(KINDS + ["v10_json", "v10_yaml", "v10_xml"]))
    ext = draw(st.sampled_from(EXT.get(kind, [".xml", ".json", ".yaml", ".odml"])))
    f = {"kind": kind, "ext": ext, "key": draw(st.integers(0, 9)), "i": i,
         "dir": draw(st.sampled_from([[], [], [0], [1], [0, 2], [3], [4]])),
         "pct": draw(st.booleans())}
    if kind == "v10_nameless_section":
        f["doc"] = draw(conv10.doc10(1))
        f["ext"] = draw(st.sampled_from([".xml", ".odml"]))
    elif kind.startswith("v10"):
        f["doc"] = draw(conv10.doc10(1))
        f["native"] = draw(st.booleans())
    elif kind.startswith("v11"):
        f["doc"] = draw(S.doc_spec(max_depth=2, max_secs=2, max_props=2, tuples=False,
                                   text_classes=["plain", "comma"], falsy=False))
    return f


@st.composite
def cases(draw):
    n = draw(st.integers(1, 7))
    files = [draw(file_spec(i)) for i in range(n)]
    if draw(st.integers(0, 2)) == 0:
        # the same 1.0 document three times, the middle copy made unconvertible by a trailing Section
        # without name: whatever state a failed conversion leaves behind meets the same names again
        shared = draw(conv10.doc10(1))
        if not shared["sections"]:
            shared = dict(shared, sections=[{"name": "S", "type": "t", "id": None, "definition": None,
                                             "reference": None, "props": [], "sections": [], "extra": []}])
        sub = draw(st.sampled_from([[], [0]]))
        for key, kind in ((3, "v10_xml"), (4, "v10_nameless_section"), (5, "v10_xml")):
            files.append({"kind": kind, "ext": ".xml", "key": key, "i": len(files), "dir": sub, "pct": False,
                          "doc": shared, "native": False})
    tool = draw(st.sampled_from(["odmlconvert", "odmltordf", "fc_convert_dir", "fc_convert"]))
    case = {"files": files, "tool": tool, "recursive": draw(st.booleans()),
            "explicit_out": draw(st.booleans()), "dirname": draw(st.sampled_from(DIRNAMES)),
            "trailing_sep": draw(st.booleans())}
    if tool.startswith("fc"):
        case["target"] = draw(st.sampled_from(["v1_1", "odml"] + RDF_FORMATS))
        case["pure"] = draw(st.booleans())
    return case


def write_tree(case, root):
    """Creates the input tree; returns list of (path, filespec)."""
    indir = os.path.join(root, case["dirname"])
    os.makedirs(indir)
    out = []
    for f in case["files"]:
        d = indir
        for k in f["dir"]:
            d = os.path.join(d, SUBDIRS[k])
        os.makedirs(d, exist_ok=True)
        name = "%d_f%d%s%s" % (f["key"], f["i"], "%d" if f.get("pct") else "", f["ext"])
        path = os.path.join(d, name)
        kind = f["kind"]
        if kind == "v10_nameless_section":
            # an old-version file that cannot be converted: named Sections, then one without a name
            data = conv10.emit_xml(f["doc"]).replace("</odML>", "  <section><type>t</type></section>\n</odML>")
        elif kind == "v10_xml":
            data = conv10.emit_xml(f["doc"])
        elif kind == "v10_json":
            data = conv10.emit_json(f["doc"], f.get("native", False))
        elif kind == "v10_yaml":
            data = conv10.emit_yaml(f["doc"], f.get("native", False))
        elif kind.startswith("v11"):
            doc = build.build_doc(clean11(f["doc"]))
            backend = kind.split("_")[1].upper()
            odml.save(doc, path, backend)
            data = None
        elif kind == "empty":
            data = ""
        elif kind == "text":
            data = "this is not an odML file\nat all {]\n"
        elif kind == "malformed":
            data = '<?xml version="1.0"?>\n<odML version="1"><section><name>x</name>\n'
        else:
            data = '<?xml version="1.0"?>\n<html><body><p>other vocabulary</p></body></html>\n'
        if data is not None:
            with open(path, "w", encoding="utf-8") as fh:
                fh.write(data)
        out.append((path, f))
    return indir, out


def clean11(spec):
    """Not every URL text can be written as RDF: 1.1 sources carry no repository."""
    import copy
    spec = copy.deepcopy(spec)
    spec["repository"] = None
    for s_ in S.iter_secs(spec):
        s_["repository"] = None
        for p_ in s_.get("props", []):
            p_["uncertainty"] = None        # XML re-types it (known finding C01-F1), not the subject here
    return spec


def tree_state(root):
    state = {}
    for dp, dn, fn in os.walk(root):
        state[dp] = None
        for n in fn:
            p = os.path.join(dp, n)
            with open(p, "rb") as fh:
                state[p] = hashlib.sha256(fh.read()).hexdigest()
    return state


def accepted_by(tool, target, kind):
    if kind in BAD:
        return False
    if tool == "odmlconvert":
        return kind.startswith("v10")
    if tool == "odmltordf":
        return kind.startswith("v1")
    if target == "v1_1":
        return kind == "v10_xml"
    return kind == "v11_xml"


def visible(case, f):
    return case["recursive"] or not f["dir"]


def check_output_content(path, f, fails, tool):
    kind = f["kind"]
    if path.endswith((".xml", ".odml")):
        try:
            doc = XMLReader(ignore_errors=False, show_warnings=False).from_file(path)
        except Exception as exc:
            fails.append(failure("batch.output_unloadable", "output %s of a %s source cannot be loaded: %r"
                                 % (os.path.basename(path), kind, str(exc)[:120]), kind=kind, tool=tool))
            return
        if kind.startswith("v10"):
            exp, drops = conv10.expected(f["doc"], dict_form=(kind != "v10_xml"))
            sub = []
            gsecs = list(list.__iter__(doc.sections))
            if c15.names_ok([s["name"] for s in exp["sections"]], [s.name for s in gsecs], "/", sub, "Section"):
                for e, g in zip(exp["sections"], gsecs):
                    c15.compare_sec(e, g, "/" + e["name"], sub)
            for x in sub[:2]:
                fails.append(failure("batch.output_content", "output of %s: %s" % (kind, x["detail"]),
                                     kind=kind, tool=tool))
        else:
            src = build.build_doc(clean11(f["doc"]))
            a = snap.normalize(snap.content(src), ids=False, trim=True)
            b = snap.normalize(snap.content(doc), ids=False, trim=True)
            if a != b:
                fails.append(failure("batch.output_content", "output of %s differs from its source: %r"
                                     % (kind, snap.diff(a, b, limit=1)), kind=kind, tool=tool))
    else:
        fmt = {".rdf": "xml", ".ttl": "turtle", ".nt": "nt", ".n3": "n3", ".trig": "trig",
               ".jsonld": "json-ld"}.get(os.path.splitext(path)[1])
        try:
            g = rdflib.ConjunctiveGraph() if fmt == "trig" else rdflib.Graph()
            g.parse(path, format=fmt)
        except Exception as exc:
            fails.append(failure("batch.output_unloadable", "RDF output %s does not parse: %r"
                                 % (os.path.basename(path), str(exc)[:120]), kind=kind, tool=tool))
            return
        ns = "https://g-node.org/odml-rdf#"
        docs = set(g.subjects(rdflib.RDF.type, rdflib.URIRef(ns + "Document")))
        if len(docs) != 1:
            fails.append(failure("batch.output_content", "RDF output holds %d Documents" % len(docs),
                                 kind=kind, tool=tool))
            return
        nsec = len(set(g.subjects(rdflib.RDF.type, rdflib.URIRef(ns + "Section"))))
        if kind.startswith("v11"):
            want = len(list(S.iter_secs(f["doc"])))
        else:
            def cnt(secs):
                return sum(1 + cnt(s["sections"]) for s in secs)
            want = cnt(f["doc"]["sections"])
        typed = len(set(g.subjects(rdflib.URIRef(ns + "hasName"), None)))
        if nsec > want or typed < want:
            fails.append(failure("batch.output_content", "RDF output holds %d Sections, source has %d"
                                 % (nsec, want), kind=kind, tool=tool))


def body(case):
    root = env.fresh_dir("c17")
    cwd0 = os.getcwd()
    fails = []
    tool = case["tool"]
    classes = ["tool:" + tool, "recursive:%s" % case["recursive"], "explicit_out:%s" % case["explicit_out"]]
    try:
        files = case["files"]
        if tool.startswith("fc") and case.get("pure"):
            files = [f for f in files if accepted_by(tool, case["target"], f["kind"])] or files[:0]
            case = dict(case, files=files)
        indir, written = write_tree(case, root)
        work = os.path.join(root, "work")
        os.makedirs(work)
        outdir = None
        if case["explicit_out"]:
            outdir = os.path.join(root, "given out")
            os.makedirs(outdir)
        before = tree_state(root)
        arg_indir = indir + os.sep if case.get("trailing_sep") else indir
        os.chdir(work)
        raised = None
        report = io.StringIO()
        target = case.get("target")
        try:
            with contextlib.redirect_stdout(report):
                if tool == "odmlconvert":
                    args = (["-r"] if case["recursive"] else []) + (["-o", outdir] if outdir else []) + [arg_indir]
                    odml_convert.main(args)
                elif tool == "odmltordf":
                    args = (["-r"] if case["recursive"] else []) + (["-o", outdir] if outdir else []) + [arg_indir]
                    odml_to_rdf.main(args)
                elif tool == "fc_convert":
                    args = [arg_indir, target] + (["-out", outdir] if outdir else []) + \
                        (["-r"] if case["recursive"] else [])
                    FormatConverter.convert(args)
                else:
                    FormatConverter.convert_dir(arg_indir, outdir, case["recursive"], target)
        except SystemExit as exc:
            raised = exc
        except Exception as exc:
            raised = exc
        finally:
            os.chdir(cwd0)
        after = tree_state(root)
        # 1. inputs untouched
        for p, h in before.items():
            if p.startswith(indir) and after.get(p, "gone") != h:
                fails.append(failure("batch.input_changed", "input %s was %s" % (os.path.relpath(p, root),
                                     "removed" if p not in after else "modified"), tool=tool))
        # 2. writes confined
        created = [p for p in after if p not in before]
        if tool in ("odmlconvert", "odmltordf"):
            base = outdir or work
            allowed = [os.path.join(base, "odmlconv_")]
        else:
            allowed = [outdir + os.sep] if outdir else [indir.rstrip(os.sep) + "_" + target]
        for p in created:
            if not any(p.startswith(a) for a in allowed):
                fails.append(failure("batch.write_outside", "%s created %s outside the output location %r"
                                     % (tool, os.path.relpath(p, root), [os.path.relpath(a, root) for a in allowed]),
                                     tool=tool, inside_input=p.startswith(indir),
                                     dirname=case["dirname"]))
        outputs = [p for p in created if after[p] is not None]
        text = report.getvalue()
        # 3. per file expectations
        bad_before_good = False
        names = sorted((os.path.basename(p), f) for p, f in written if visible(case, f))
        seen_bad = False
        for n, f in names:
            if f["kind"] in BAD:
                seen_bad = True
            elif accepted_by(tool, target, f["kind"]) and seen_bad:
                bad_before_good = True
        if tool in ("odmlconvert", "odmltordf"):
            if raised is not None:
                fails.append(failure("batch.tool_stopped", "%s ended with %s: %s"
                                     % (tool, type(raised).__name__, str(raised)[:100]), tool=tool))
            for p, f in written:
                if not visible(case, f):
                    continue
                stem = os.path.splitext(os.path.basename(p))[0]
                if tool == "odmlconvert":
                    mine = [o for o in outputs if os.path.basename(o) == stem + "_conv.xml"]
                else:
                    mine = [o for o in outputs if os.path.basename(o) in (stem + ".rdf", stem + "_conv.rdf")]
                if accepted_by(tool, target, f["kind"]):
                    if not mine:
                        fails.append(failure("batch.output_missing", "%s: convertible %s file %s got no output "
                                             "(report: %s)" % (tool, f["kind"], os.path.basename(p),
                                                               [l for l in text.splitlines() if stem in l][-1:]),
                                             tool=tool, kind=f["kind"], bad_before=bad_before_good))
                    for o in mine[:1]:
                        check_output_content(o, f, fails, tool)
                elif f["kind"] in BAD:
                    if mine and tool == "odmlconvert":
                        fails.append(failure("batch.bad_file_output", "%s wrote an output for the %s file %s"
                                             % (tool, f["kind"], os.path.basename(p)), tool=tool))
                    import re
                    entries = re.split(r"(?=\[(?:Info|Error|Warning)\])", text)
                    if not any(os.path.basename(p) in l and "Handling file" not in l for l in entries):
                        fails.append(failure("batch.bad_file_not_reported", "%s did not report the %s file %s"
                                             % (tool, f["kind"], os.path.basename(p)), tool=tool,
                                             kind=f["kind"]))
        else:
            all_ok = all(accepted_by(tool, target, f["kind"]) for p, f in written if visible(case, f))
            if raised is not None and all_ok:
                fails.append(failure("batch.tool_stopped", "format converter (%s) raised %s: %s on a tree of "
                                     "files it accepts" % (target, type(raised).__name__, str(raised)[:100]),
                                     tool=tool, target=target))
            if raised is None:
                for p, f in written:
                    if not visible(case, f) or not accepted_by(tool, target, f["kind"]):
                        continue
                    stem = os.path.splitext(os.path.basename(p))[0]
                    mine = [o for o in outputs if os.path.splitext(os.path.basename(o))[0] == stem]
                    if not mine:
                        fails.append(failure("batch.output_missing", "format converter (%s): %s got no output"
                                             % (target, os.path.basename(p)), tool=tool, kind=f["kind"]))
                    for o in mine[:1]:
                        check_output_content(o, f, fails, tool)
        classes.append("outcome:" + ("raised" if raised is not None else "returned"))
        for p, f in written:
            classes.append("kind:" + f["kind"])
        return bad_before_good, classes, fails[:6]
    finally:
        try:
            os.chdir(cwd0)
        except OSError:
            pass
        env.rm(root)


def plan(tier):
    if tier == "quick":
        return [{"name": "trees%d" % i, "n": 60} for i in range(16)]
    return [{"name": "trees%d" % i, "n": 1500} for i in range(16)]


def run(shard, seed, ctx):
    hyp.drive(ctx, "tree", cases(), body, shard["n"], seed, shrink_budget=40)


def replay(kind, case):
    return body(case)[2]
