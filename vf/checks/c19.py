"""C19 - validation observes only: no side effects, repeatable, custom rules stay private."""
import collections
import json
import os
import subprocess
import sys

from hypothesis import strategies as st

import odml
from odml import validation as oval
from odml.validation import Validation

from .. import build, env, hyp, snap, spec as S
from ..core import failure

PROPERTY = "C19"
LEVEL = "exploration"
RULE = ("Hypothesis document specs (incl. invalidating edits: shared ids, cleared types, unnamed objects, "
        "violated cardinalities, dependencies) and histories of default validations (Validation(obj), "
        "doc.validate(), report()), custom validations (reset=True + register_custom_handler with a marker "
        "rule for odML / section / property, run_validation, report), object creation, cardinality changes, "
        "save/load in XML/JSON/YAML and stand-alone validations. Oracle: identity snapshot of the validated "
        "objects unchanged by every validation; consecutive default validations of unchanged objects give "
        "equal multisets of (path, kind, rank, message); the same document validated in a child process with "
        "another PYTHONHASHSEED gives the same multiset; the registry of default rules equals its import-time "
        "snapshot after every step; the marker rule fires in its own instance only. Non-trivial = a history "
        "with >= 1 custom validation followed by >= 1 default validation and >= 1 constructor / cardinality "
        "step in between")
ASSUMPTIONS = ["custom rules are registered on instances created with reset=True (the documented way); the "
               "static register_handler is the documented way to extend the default rules and is not used",
               "issue collections are compared as multisets (rule order is a set iteration order)"]

STEPS = ["default", "validate_method", "report", "custom_sec", "custom_prop", "custom_doc", "custom_plain",
         "create_objects", "set_cardinality", "saveload_xml", "saveload_json", "saveload_yaml",
         "standalone_sec", "standalone_prop", "edit", "default", "custom_sec", "saveload_rdf", "custom_lib",
         "custom_lib"]

# the library's own rules, registered on an instance as a custom rule (class they apply to, function)
LIB_RULES = [("section", "section_unique_ids"), ("section", "property_unique_ids"),
             ("odML", "section_unique_ids"), ("odML", "document_unique_ids"),
             ("section", "section_type_must_be_defined"), ("section", "section_unique_name_type"),
             ("section", "property_unique_names"), ("property", "property_dependency_check"),
             ("property", "property_values_check"), ("property", "property_values_string_check"),
             ("section", "section_properties_cardinality"), ("property", "property_values_cardinality"),
             ("section", "object_name_readable"), ("property", "object_required_attributes"),
             # the two optional rules that look at the repository (only file: URLs are ever fetched)
             ("section", "section_repository_present"), ("property", "property_terminology_check")]

_IMPORT_REGISTRY = {k: frozenset(v) for k, v in Validation._handlers.items()}
MARK = "C19 marker rule fired"


def marker_rule(obj):
    yield oval.ValidationError(obj, MARK, oval.LABEL_WARNING, oval.IssueID.custom_validation)


def cases(depth):
    return st.fixed_dictionaries({
        "doc": S.doc_spec(max_depth=depth, max_secs=3, max_props=3,
                          text_classes=["plain", "comma", "lookalike", "lookalike"]),
        "invalidate": st.lists(st.tuples(st.sampled_from(["dup_id", "type_none", "unname", "card", "dep", "link",
                                                          "numeric_strings"]),
                                         st.integers(0, 30), st.integers(0, 30)).map(list), max_size=4),
        "steps": st.lists(st.tuples(st.sampled_from(STEPS), st.integers(0, 30)).map(list), min_size=2,
                          max_size=10),
        "subprocess": st.integers(0, 9),
    })


def issues_of(v):
    out = collections.Counter()
    for e in v.errors:
        try:
            path = e.path
        except Exception:
            path = "?"
        knd = e.validation_id.value if e.validation_id is not None else None
        out[(path, getattr(e.obj, "id", None), knd, e.rank, e.msg)] += 1
    return out


def registry():
    return {k: frozenset(v) for k, v in Validation._handlers.items()}


def nodes_of(doc):
    objs = snap.reachable([doc])
    secs = sorted([o for o in objs if snap.kind(o) == "sec"], key=lambda o: (o.get_path(), o.id))
    props = sorted([o for o in objs if snap.kind(o) == "prop"], key=lambda o: (o.get_path(), o.id))
    return secs, props


def invalidate(doc, edits):
    for op, a, b in edits:
        secs, props = nodes_of(doc)
        nodes = secs + props
        if not nodes:
            return
        try:
            if op == "dup_id":
                x, y = nodes[a % len(nodes)], nodes[b % len(nodes)]
                if x is not y:
                    y.new_id(x.id)
            elif op == "type_none" and secs:
                secs[a % len(secs)].type = [None, "", "n.s."][b % 3]
            elif op == "unname":
                nodes[a % len(nodes)].name = None
            elif op == "card":
                if props and b % 2:
                    props[a % len(props)].val_cardinality = (len(props[a % len(props)].values) + 1, None)
                elif secs:
                    secs[a % len(secs)].prop_cardinality = (len(secs[a % len(secs)].properties) + 2, None)
            elif op == "dep" and props:
                props[a % len(props)].dependency = "missing-%d" % b
            elif op == "link" and secs:
                # an unresolved but resolvable link, as a loaded file carries it before finalize()
                tgt = secs[a % len(secs)]
                odml.Section(name="linking-%d" % b, type=tgt.type, parent=doc, link=tgt.get_path())
            elif op == "numeric_strings" and secs:
                odml.Property(name="numstr-%d" % b, dtype="string",
                              values=[["1", "2.5"], ["1", "2.5", "2020-01-01"], ["12:00:00", "3"],
                                      ["true", "7"]][b % 4], parent=secs[a % len(secs)])
        except Exception:
            pass


CHILD = r"""
import sys, json, collections, warnings
warnings.simplefilter("ignore")
import io, contextlib
buf = io.StringIO()
with contextlib.redirect_stdout(buf), contextlib.redirect_stderr(buf):
    import odml
    from odml.validation import Validation
    doc = odml.tools.xmlparser.XMLReader(ignore_errors=True, show_warnings=False).from_file(sys.argv[1])
    v = Validation(doc)
out = collections.Counter()
for e in v.errors:
    knd = e.validation_id.value if e.validation_id is not None else None
    out[json.dumps([e.path, e.obj.id, knd, e.rank, e.msg])] += 1
print(json.dumps(sorted(out.items())))
"""


def body(case):
    doc = build.build_doc(case["doc"])
    invalidate(doc, case["invalidate"])
    fails = []
    classes = []
    tmp = env.fresh_dir("c19")
    last_default = None          # issues of the last default validation of the unchanged document
    custom_seen = False
    between = False
    nt = False
    try:
        universe = snap.reachable([doc])
        for i, (step, a) in enumerate(case["steps"]):
            where = "step %d %s" % (i, step)
            secs, props = nodes_of(doc)
            before = snap.identity(universe)
            reg_before = registry()
            validated = True
            try:
                if step in ("default", "validate_method", "report"):
                    if step == "default":
                        v = Validation(doc)
                    elif step == "validate_method":
                        v = doc.validate()
                    else:
                        v = Validation(doc)
                        first = issues_of(v)
                        v.report()
                        if issues_of(v) != first:
                            fails.append(failure("observe.report_differs", "%s: report() re-ran the validation "
                                                 "and found other issues" % where))
                    cur = issues_of(v)
                    if any(k[4] == MARK for k in cur):
                        fails.append(failure("private.marker_in_default", "%s: the custom marker rule fired in "
                                             "a default validation" % where, step=step))
                    if last_default is not None and cur != last_default:
                        diff = (cur - last_default) + (last_default - cur)
                        fails.append(failure("observe.not_repeatable", "%s: a second default validation of the "
                                             "unchanged document reports other issues: %r"
                                             % (where, list(diff.items())[:2]), step=step))
                    last_default = cur
                    if custom_seen and between:
                        nt = True
                elif step.startswith("custom") and step != "custom_lib":
                    v = Validation(doc, reset=True)
                    klass = {"custom_sec": "section", "custom_prop": "property", "custom_doc": "odML",
                             "custom_plain": None}[step]
                    if klass:
                        v.register_custom_handler(klass, marker_rule)
                    v.run_validation()
                    cur = issues_of(v)
                    n_mark = sum(c for k, c in cur.items() if k[4] == MARK)
                    want = {"section": len(secs), "property": len(props), "odML": 1, None: 0}[klass]
                    if n_mark != want or sum(cur.values()) != want:
                        fails.append(failure("private.custom_scope", "%s: custom validation with a marker for %r "
                                             "reported %d marker issues of %d issues, expected exactly %d"
                                             % (where, klass, n_mark, sum(cur.values()), want), klass=str(klass)))
                    v.report()
                    custom_seen = True
                    between = False
                elif step == "custom_lib":
                    klass, fname = LIB_RULES[a % len(LIB_RULES)]
                    if fname in ("section_repository_present", "property_terminology_check"):
                        repos = [doc.repository] + [s_.repository for s_ in secs]
                        if any(r and not str(r).startswith("file:") for r in repos):
                            klass, fname = LIB_RULES[0]
                        elif secs:
                            # the shape these rules are about: a repository that Sections inherit
                            if not doc.repository:
                                doc.repository = "file:///nonexistent/t.xml"
                            for s_ in secs[:2]:
                                s_.repository = None
                            last_default = None
                            universe = snap.reachable([doc])
                            before = snap.identity(universe)
                    runs = []
                    for _ in range(2):
                        v = Validation(doc, validate=False, reset=True)
                        v.register_custom_handler(klass, getattr(oval, fname))
                        v.run_validation()
                        runs.append(issues_of(v))
                    if runs[0] != runs[1]:
                        diff = (runs[0] - runs[1]) + (runs[1] - runs[0])
                        fails.append(failure("observe.not_repeatable", "%s: two custom validations with the "
                                             "library rule %s of the unchanged document report different "
                                             "issues: %r" % (where, fname, list(diff.items())[:2]), step=step,
                                             rule=fname))
                    custom_seen = True
                    between = False
                elif step == "create_objects":
                    validated = False
                    s = odml.Section(name="c19-%d" % i, type="t")
                    odml.Property(name="c19p-%d" % i, values=[1, 2], parent=s)
                    odml.Section(name=None, type=None)
                    odml.Document(author="x")
                    between = True
                elif step == "set_cardinality":
                    validated = False
                    tmp_s = odml.Section(name="c19c-%d" % i, type="t")
                    tmp_s.sec_cardinality = (1, 2)
                    tmp_s.prop_cardinality = (None, 1)
                    tmp_p = odml.Property(name="c19cp", values=[1])
                    tmp_p.val_cardinality = (2, None)
                    tmp_p.set_values_cardinality(0, 1)
                    between = True
                elif step.startswith("saveload"):
                    validated = False
                    fmt = step.split("_")[1].upper()
                    path = os.path.join(tmp, "d%d.%s" % (i, fmt.lower()))
                    try:
                        odml.save(doc, path, fmt)
                        if fmt == "RDF":
                            odml.load(path + ".rdf" if not os.path.exists(path) else path, fmt,
                                      show_warnings=False)
                        else:
                            odml.load(path, fmt, show_warnings=False)
                    except Exception:
                        pass        # invalid documents are refused: not this property's subject
                    if fmt == "RDF":
                        # the RDF export resolves the links of the document first (finalize): the document
                        # validated from here on is the resolved one
                        last_default = None
                        universe = snap.reachable([doc])
                    between = True
                elif step == "standalone_sec":
                    if secs:
                        Validation(secs[a % len(secs)])
                elif step == "standalone_prop":
                    if props:
                        Validation(props[a % len(props)])
                elif step == "edit":
                    validated = False
                    if props:
                        p = props[a % len(props)]
                        p.definition = "edited %d" % i
                        p.val_cardinality = (len(p.values) + 1, None) if a % 2 else None
                    elif secs:
                        secs[a % len(secs)].type = "edited"
                    last_default = None
                    universe = snap.reachable([doc])
            except Exception as exc:
                fails.append(failure("observe.raised", "%s raised %s: %s" % (where, type(exc).__name__,
                                                                            str(exc)[:120]), step=step))
                break
            classes.append("step:" + step)
            if validated:
                d = snap.identity_diff(before, snap.identity(universe))
                if d:
                    fails.append(failure("observe.mutated", "%s changed the validated objects: %s %s %r -> %r"
                                         % (where, d[0][1], d[0][2], d[0][3], d[0][4]), step=step, key=d[0][2]))
            reg = registry()
            if reg != _IMPORT_REGISTRY:
                changed = sorted(k for k in set(reg) | set(_IMPORT_REGISTRY) if reg.get(k) != _IMPORT_REGISTRY.get(k))
                fails.append(failure("private.registry_changed", "%s changed the set of default rules for %r"
                                     % (where, changed), step=step))
                Validation._handlers = {k: set(v) for k, v in _IMPORT_REGISTRY.items()}
            if fails:
                break
        # another process
        if not fails and case["subprocess"] == 0:
            path = os.path.join(tmp, "child.xml")
            try:
                odml.tools.xmlparser.XMLWriter(doc).write_file(path)
                here = odml.tools.xmlparser.XMLReader(ignore_errors=True, show_warnings=False).from_file(path)
                mine = collections.Counter()
                for e in Validation(here).errors:
                    knd = e.validation_id.value if e.validation_id is not None else None
                    mine[json.dumps([e.path, e.obj.id, knd, e.rank, e.msg])] += 1
                envv = dict(os.environ, PYTHONHASHSEED=str(1 + case["subprocess"] + len(case["steps"])))
                out = subprocess.run([sys.executable, "-c", CHILD, path], capture_output=True, text=True,
                                     env=envv, timeout=120)
                theirs = json.loads(out.stdout.strip().splitlines()[-1])
                if sorted(mine.items()) != [tuple(x) for x in theirs]:
                    fails.append(failure("observe.differs_across_processes", "the same file validated in another "
                                         "process (other hash seed) reports other issues: here %d, there %d"
                                         % (sum(mine.values()), sum(c for _, c in theirs))))
                classes.append("subprocess")
            except Exception as exc:
                raise RuntimeError("child process comparison failed: %r" % exc)
        return nt, classes, fails[:5]
    finally:
        env.rm(tmp)
        Validation._handlers = {k: set(v) for k, v in _IMPORT_REGISTRY.items()}


def plan(tier):
    if tier == "quick":
        return [{"name": "hist%d" % i, "n": 100, "depth": 2} for i in range(16)]
    return [{"name": "hist%d" % i, "n": 1200, "depth": 3} for i in range(16)]


def run(shard, seed, ctx):
    hyp.drive(ctx, "history", cases(shard["depth"]), body, shard["n"], seed, reset=False)


def replay(kind, case):
    return body(case)[2]
