"""C14 - paths address exactly one object and traversals enumerate exactly the tree."""
import itertools

from hypothesis import strategies as st

import odml

from .. import env, hyp
from ..core import failure

PROPERTY = "C14"
LEVEL = "exploration"
EXHAUSTIVE = ("all 196 ordered rooted forests with <= 6 Sections under a Document x 7 rotations of a "
              "prefix-related and case-related name alphabet {a, ab, abc, A, b, a-b, Ab}; per tree every node, every ordered "
              "pair of Sections (incl. a = b and ancestor/descendant), every start node x max_depth in "
              "{None, 0..depth+1} x yield_self x filter, and a fixed grid of find / find_related queries")
RULE = ("exhaustive: itertools enumeration of the small-tree space (complete within the stated bounds); "
        "random: Hypothesis trees with up to 200 Sections and depth <= 12. Oracles: path lookup returns the "
        "identical object; reference BFS written in the harness; reference relation predicates for find / "
        "find_related. Non-trivial = an ordered pair in different branches or ancestor-related whose names "
        "share a prefix, or a traversal from a non-root start with a depth bound; distinct = distinct "
        "(tree, query) cell")
ASSUMPTIONS = ["names are free of '/' and ':' and differ from '.' and '..'",
               "depth semantics as documented and used by every caller: children of a Document are level 1, a "
               "start Section is level 0 (yielded only with yield_self), levels <= max_depth are included",
               "find / find_related are queried with a name and/or a type (a query with neither matches "
               "everything including the Document and is not specified)",
               "find_related(findAll=True) is compared as a set"]

ALPHABET = ["a", "ab", "abc", "A", "b", "a-b", "Ab"]
# (types are compared without regard to case as str.lower() has it: 'straße' is not 'STRASSE')
TYPES = ["t", "T", "a/b", "a/b/c", "b", "A/B", "straße", "STRASSE"]


def forests(n):
    """All ordered forests with n nodes, as nested tuples of children."""
    if n == 0:
        return [()]
    out = []
    # first tree has k nodes (1..n): root + forest of k-1 nodes; rest is a forest with n-k nodes
    for k in range(1, n + 1):
        for sub in forests(k - 1):
            for rest in forests(n - k):
                out.append((sub,) + rest)
    return out


_FORESTS = None


def all_forests():
    global _FORESTS
    if _FORESTS is None:
        _FORESTS = []
        for n in range(1, 7):
            _FORESTS.extend(forests(n))
    return _FORESTS


def build_tree(forest, rot):
    doc = odml.Document()
    nodes = []

    def add(parent, children, depth):
        for i, sub in enumerate(children):
            name = ALPHABET[(i + rot + depth) % len(ALPHABET)]
            typ = TYPES[(i + 2 * depth + rot) % len(TYPES)]
            sec = odml.Section(name=name, type=typ)
            parent.append(sec)
            nodes.append(sec)
            # one Property named like a sibling Section, one other; every third Section stays
            # without Properties (an empty leaf Section is falsy) and every second 'p' has no values
            if len(nodes) % 3 != 2:
                sib = ALPHABET[(i + 1 + rot + depth) % len(ALPHABET)]
                sec.append(odml.Property(name=sib, values=[len(nodes)]))
                sec.append(odml.Property(name="p", values=["v%d" % len(nodes), "w"] if len(nodes) % 2 else []))
            add(sec, sub, depth + 1)
    add(doc, forest, 0)
    return doc, nodes


# ------------------------------------------------------------------------------------
# reference implementations

def ref_children(o):
    return list(list.__iter__(o.sections))


def ref_bfs(start, is_doc, max_depth, yield_self, flt):
    out = []
    queue = []
    if is_doc:
        if max_depth is None or max_depth > 0:
            queue = [(s, 1) for s in ref_children(start)]
    else:
        queue = [(start, 0)]
    while queue:
        sec, level = queue.pop(0)
        if (level > 0 or yield_self) and flt(sec):
            out.append(sec)
        if max_depth is None or level < max_depth:
            queue.extend((c, level + 1) for c in ref_children(sec))
    return out


def ref_prop_sections(start, is_doc, max_depth):
    return ref_bfs(start, is_doc, max_depth, True, lambda s: True)


def depth_below(o):
    kids = ref_children(o)
    return 0 if not kids else 1 + max(depth_below(k) for k in kids)


def ancestors(s):
    out = []
    p = s.parent
    while p is not None:
        out.append(p)
        p = p.parent
    return out


def descendants(o):
    out = []
    for c in ref_children(o):
        out.append(c)
        out.extend(descendants(c))
    return out


def matches(sec, key, typ, include_subtype=False):
    if not hasattr(sec, "name"):
        return False
    if key is not None and sec.name != key:
        return False
    if typ is not None:
        t = sec.type.lower()
        want = typ.lower()
        if t == want:
            return True
        if include_subtype and want in t.split("/")[:-1]:
            return True
        return False
    return True


def same(a, b):
    return len(a) == len(b) and all(x is y for x, y in zip(a, b))


def idset(objs):
    return {id(o) for o in objs}


# ------------------------------------------------------------------------------------
# oracles on one tree

def check_paths(doc, nodes, fails, ctx_nt, tree_tag):
    starts = [doc] + nodes
    for s in nodes:
        path = s.get_path()
        for st_ in starts:
            try:
                got = st_.get_section_by_path(path)
            except Exception as exc:
                fails.append(failure("path.section_lookup", "%s: get_section_by_path(%r) from %s raised %r"
                                     % (tree_tag, path, _nm(st_), exc), relation="absolute"))
                continue
            if got is not s:
                fails.append(failure("path.section_lookup", "%s: get_section_by_path(%r) from %s returned %s"
                                     % (tree_tag, path, _nm(st_), _nm(got)), relation="absolute"))
        for p in list.__iter__(s.properties):
            ppath = p.get_path()
            for st_ in starts:
                try:
                    got = st_.get_property_by_path(ppath)
                except Exception as exc:
                    fails.append(failure("path.property_lookup", "%s: get_property_by_path(%r) from %s raised %r"
                                         % (tree_tag, ppath, _nm(st_), exc)))
                    continue
                if got is not p:
                    fails.append(failure("path.property_lookup", "%s: get_property_by_path(%r) from %s returned "
                                         "another object" % (tree_tag, ppath, _nm(st_))))
    n = 0
    for a in nodes:
        anc_a = ancestors(a)
        for b in nodes:
            n += 1
            if a is b:
                rel = "self"
            elif b in anc_a:
                rel = "ancestor"
            elif a in ancestors(b):
                rel = "descendant"
            else:
                rel = "branch"
            try:
                rp = a.get_relative_path(b)
                got = a.get_section_by_path(rp)
            except Exception as exc:
                fails.append(failure("path.relative", "%s: from %s to %s: relative path failed with %r"
                                     % (tree_tag, a.get_path(), b.get_path(), exc), relation=rel))
                continue
            if got is not b:
                fails.append(failure("path.relative", "%s: from %s, get_relative_path(%s) = %r resolves to %s"
                                     % (tree_tag, a.get_path(), b.get_path(), rp, _nm(got)), relation=rel))
            if rel in ("branch", "ancestor") and (a.name.startswith(b.name) or b.name.startswith(a.name)):
                ctx_nt.add((tree_tag, "pair", a.get_path(), b.get_path()))
    return n + len(nodes) * (len(nodes) + 1)


def _nm(o):
    if o is None:
        return "None"
    try:
        return o.get_path()
    except Exception:
        return repr(o)


FILTERS = {"all": lambda s: True, "has_b": lambda s: "b" in s.name}


def check_traversals(doc, nodes, fails, ctx_nt, tree_tag):
    n = 0
    for start in [doc] + nodes:
        is_doc = start is doc
        maxd = depth_below(start)
        for max_depth in [None] + list(range(0, maxd + 2)):
            for yield_self in (False, True):
                for fname, flt in FILTERS.items():
                    n += 1
                    want = ref_bfs(start, is_doc, max_depth, yield_self, flt)
                    try:
                        got = list(start.itersections(max_depth=max_depth, yield_self=yield_self,
                                                      filter_func=flt))
                    except Exception as exc:
                        fails.append(failure("traverse.itersections", "%s: itersections from %s raised %r"
                                             % (tree_tag, _nm(start), exc)))
                        continue
                    if not same(got, want):
                        fails.append(failure("traverse.itersections", "%s: itersections(max_depth=%r, "
                                             "yield_self=%r, filter=%s) from %s yields %r, reference BFS %r"
                                             % (tree_tag, max_depth, yield_self, fname, _nm(start),
                                                [_nm(x) for x in got], [_nm(x) for x in want]),
                                             max_depth=repr(max_depth), from_doc=is_doc))
            secs = ref_prop_sections(start, is_doc, max_depth)
            want_props = [p for s in secs for p in list.__iter__(s.properties)]
            n += 2
            try:
                got_props = list(start.iterproperties(max_depth=max_depth))
                got_vals = list(start.itervalues(max_depth=max_depth))
            except Exception as exc:
                fails.append(failure("traverse.iterproperties", "%s: iterproperties/itervalues from %s raised %r"
                                     % (tree_tag, _nm(start), exc)))
                continue
            if not same(got_props, want_props):
                fails.append(failure("traverse.iterproperties", "%s: iterproperties(max_depth=%r) from %s yields "
                                     "%d Properties, reference %d (or another order)"
                                     % (tree_tag, max_depth, _nm(start), len(got_props), len(want_props)),
                                     max_depth=repr(max_depth), from_doc=is_doc))
            if got_vals != [p.values for p in want_props]:
                fails.append(failure("traverse.itervalues", "%s: itervalues(max_depth=%r) from %s differs from "
                                     "the reference" % (tree_tag, max_depth, _nm(start)),
                                     max_depth=repr(max_depth)))
            pf = lambda p: p.name == "p"  # noqa
            got_f = list(start.iterproperties(max_depth=max_depth, filter_func=pf))
            if not same(got_f, [p for p in want_props if pf(p)]):
                fails.append(failure("traverse.iterproperties", "%s: iterproperties with a filter differs"
                                     % tree_tag, max_depth=repr(max_depth)))
            if not is_doc and max_depth is not None:
                ctx_nt.add((tree_tag, "trav", _nm(start), max_depth))
    return n


KEYS = [None, "a", "ab", "b", "A"]
QTYPES = [None, "t", "A/B", "a", "b", "straße", "Strasse"]


def check_find(doc, nodes, fails, tree_tag, full):
    n = 0
    for start in [doc] + nodes:
        kids = ref_children(start)
        for key in KEYS:
            for typ in QTYPES:
                if key is None and typ is None:
                    continue
                for sub in (False, True):
                    cands = [c for c in kids if matches(c, key, typ, sub)]
                    n += 2
                    try:
                        one = start.find(key=key, type=typ, include_subtype=sub)
                        many = start.find(key=key, type=typ, findAll=True, include_subtype=sub)
                    except Exception as exc:
                        fails.append(failure("find.raised", "%s: find(%r, %r) from %s raised %r"
                                             % (tree_tag, key, typ, _nm(start), exc)))
                        continue
                    _judge(fails, "find", tree_tag, start, (key, typ, sub), one, many, cands)
        if start is doc:
            continue
        for key in KEYS[:3] if not full else KEYS:
            for typ in QTYPES[:3] if not full else QTYPES:
                if key is None and typ is None:
                    continue
                for ch, sib, par, rec in itertools.product((False, True), repeat=4):
                    cands = []
                    if ch:
                        pool = descendants(start) if rec else kids
                        cands += [c for c in pool if matches(c, key, typ)]
                    if sib and start.parent is not None:
                        cands += [c for c in ref_children(start.parent) if matches(c, key, typ)]
                    if par:
                        pool = ancestors(start) if rec else ancestors(start)[:1]
                        cands += [c for c in pool if matches(c, key, typ)]
                    n += 2
                    try:
                        one = start.find_related(key=key, type=typ, children=ch, siblings=sib, parents=par,
                                                 recursive=rec)
                        many = start.find_related(key=key, type=typ, children=ch, siblings=sib, parents=par,
                                                  recursive=rec, findAll=True)
                    except Exception as exc:
                        fails.append(failure("find.raised", "%s: find_related(%r, %r, children=%r, siblings=%r, "
                                             "parents=%r, recursive=%r) from %s raised %r"
                                             % (tree_tag, key, typ, ch, sib, par, rec, _nm(start), exc)))
                        continue
                    _judge(fails, "find_related", tree_tag, start, (key, typ, ch, sib, par, rec), one, many,
                           cands)
    return n


def _judge(fails, what, tree_tag, start, query, one, many, cands):
    cset = idset(cands)
    if one is not None and id(one) not in cset:
        fails.append(failure("find.unsound", "%s: %s%r from %s returned %s which does not satisfy the query "
                             "within the requested relation" % (tree_tag, what, query, _nm(start), _nm(one)),
                             what=what))
    if one is None and cands:
        fails.append(failure("find.incomplete", "%s: %s%r from %s returned None although %s qualifies"
                             % (tree_tag, what, query, _nm(start), _nm(cands[0])), what=what))
    mlist = many if many is not None else []
    if not isinstance(mlist, list):
        fails.append(failure("find.unsound", "%s: %s%r findAll returned %r" % (tree_tag, what, query, many),
                             what=what))
        return
    if idset(mlist) != cset:
        fails.append(failure("find.findall", "%s: %s%r findAll from %s returned %r, reference set %r"
                             % (tree_tag, what, query, _nm(start), sorted(_nm(x) for x in mlist),
                                sorted(_nm(x) for x in cands)), what=what))


# ------------------------------------------------------------------------------------

def run_exhaustive(shard, ctx):
    fs = all_forests()
    idx = 0
    for fi, forest in enumerate(fs):
        for rot in range(len(ALPHABET)):
            idx += 1
            if idx % shard["of"] != shard["i"]:
                continue
            tag = "forest#%d/rot%d" % (fi, rot)
            fails = []
            nt = set()
            n = 0
            try:
                with env.watchdog():
                    doc, nodes = build_tree(forest, rot)
                    n = check_paths(doc, nodes, fails, nt, tag)
                    n += check_traversals(doc, nodes, fails, nt, tag)
                    n += check_find(doc, nodes, fails, tag, full=(rot < shard["find_rots"]))
            except env.CaseHang:
                fails.append(failure("hang.no_return", "%s: a path / traversal query did not return within "
                                     "%d s" % (tag, env.HANG_SECONDS)))
            ctx.tick(n, ["exhaustive"])
            for k in nt:
                ctx.add_nt(k)
            case = {"forest": fi, "rot": rot}
            if fi % 40 == 7 and rot == 0 and not fails:
                ctx.sample({"kind": "exhaustive", "case": case, "shape": repr(forest),
                            "paths": [s.get_path() for s in nodes]})
            if fails:
                unmatched = ctx.case(case, True, [], fails[:6], count=False, kind="exhaustive")
                if unmatched:
                    ctx.violation("exhaustive", case, unmatched)


@st.composite
def random_tree(draw, max_nodes):
    n = draw(st.integers(2, max_nodes))
    parents = [draw(st.integers(-1, i - 1)) for i in range(n)]
    names = [draw(st.sampled_from(ALPHABET + ["x", "a b", "ä", "a.b", "c,d"])) for _ in range(n)]
    picks = draw(st.lists(st.integers(0, n - 1), min_size=2, max_size=8))
    return {"parents": parents, "names": names, "picks": picks}


def build_random(case):
    doc = odml.Document()
    nodes = []
    depth = []
    for i, (par, nm) in enumerate(zip(case["parents"], case["names"])):
        if par >= 0 and depth[par] >= 12:
            par = -1
        parent = doc if par < 0 else nodes[par]
        used = {s.name for s in list.__iter__(parent.sections)}
        name = nm
        k = 0
        while name in used:
            k += 1
            name = "%s%d" % (nm, k)
        sec = odml.Section(name=name, type=TYPES[i % len(TYPES)])
        parent.append(sec)
        sec.append(odml.Property(name="p", values=[i]))
        nodes.append(sec)
        depth.append(1 if par < 0 else depth[par] + 1)
    return doc, nodes


def random_body(case):
    doc, nodes = build_random(case)
    if case["picks"][0] % 3 == 0 and len(nodes) >= 4:
        # ids are not what tells Sections apart: two Sections of the tree share one
        a, b = nodes[case["picks"][1] % len(nodes)], nodes[case["picks"][-1] % len(nodes)]
        if a is not b:
            b.new_id(a.id)
    fails = []
    picks = [nodes[i % len(nodes)] for i in case["picks"]]
    nt = set()
    check_paths(doc, picks, fails, nt, "random")
    check_traversals(doc, picks[:2], fails, nt, "random")
    # whole-document traversal
    want = ref_bfs(doc, True, None, False, lambda s: True)
    got = list(doc.itersections())
    if not same(got, want) or len(got) != len(nodes):
        fails.append(failure("traverse.itersections", "random tree: document traversal yields %d Sections, "
                             "tree has %d" % (len(got), len(nodes)), from_doc=True, max_depth="None"))
    classes = ["random:%d" % (len(nodes) // 50 * 50)]
    # a subtree that was moved after its paths had been looked up is addressed like any other
    holders = [s for s in nodes if len(s.sections)]
    if holders and not fails:
        top = holders[case["picks"][0] % len(holders)]
        moved = [top] + descendants(top)
        how = case["picks"][1] % 2
        doc2 = odml.Document()
        if how == 0:
            doc2.append(top)
            new_doc = doc2
        else:
            dests = [s for s in nodes if all(s is not m for m in moved) and top.name not in s.sections
                     and s is not top.parent]
            if dests:
                dests[case["picks"][-1] % len(dests)].append(top)
                new_doc = doc
            else:
                doc2.append(top)
                new_doc = doc2
        classes.append("random:subtree_moved_to_%s" % ("another_document" if new_doc is doc2 else "another_branch"))
        rest = [s for s in nodes if all(s is not m for m in moved)]
        check_paths(new_doc, moved[:5] + moved[-2:], fails, nt, "random, moved subtree")
        if rest:
            check_paths(doc, rest[:4], fails, nt, "random, after a subtree was moved away")
    return len(nodes) >= 20, classes, fails[:6]


def plan(tier):
    shards = [{"name": "exh%d" % i, "type": "exh", "i": i, "of": 12, "find_rots": 1 if tier == "quick" else 6}
              for i in range(12)]
    n, size = (25, 60) if tier == "quick" else (5000, 200)
    shards += [{"name": "rnd%d" % i, "type": "rnd", "n": n, "size": size} for i in range(4)]
    return shards


def run(shard, seed, ctx):
    if shard["type"] == "exh":
        run_exhaustive(shard, ctx)
    else:
        hyp.drive(ctx, "random", random_tree(shard["size"]), random_body, shard["n"], seed)


def replay(kind, case):
    if kind == "exhaustive":
        doc, nodes = build_tree(all_forests()[case["forest"]], case["rot"])
        fails = []
        check_paths(doc, nodes, fails, set(), "replay")
        check_traversals(doc, nodes, fails, set(), "replay")
        check_find(doc, nodes, fails, "replay", full=True)
        return fails[:8]
    return random_body(case)[2]
