"""C15 - version conversion 1.0 -> 1.1 keeps the content and yields a loadable file."""
import io
import os
import re

from hypothesis import strategies as st

from odml.tools.converters import VersionConverter
from odml.tools.xmlparser import XMLReader

from .. import env, hyp, snap
from ..core import failure
from ..model import conv10

PROPERTY = "C15"
LEVEL = "translation_validation"
RULE = ("Hypothesis-generated odML 1.0 documents (any tree shape, 0..n value elements per Property with "
        "attributes on the first, later or all values, agreeing and conflicting, duplicate sibling names at "
        "any level, present/absent/malformed ids, unsupported elements anywhere incl. consecutive ones, both "
        "dependency_value spellings, unnamed Properties, 'binary' types, text with commas/quotes/brackets) "
        "written by three independent emitters (XML, JSON, YAML) and given as StringIO or file. Each "
        "converted document is validated against an independent model of the documented mapping: strict "
        "reader loads it, tree / Properties / values in order / lifted attributes / ids / renamed duplicates "
        "as the model says, every expected drop has a conversion-log entry, the source is unchanged, "
        "write_to_file gives the same document. Non-trivial = >= 1 Property with >= 2 value elements and one "
        "of: conflicting attributes, duplicate names, a dropped element")
ASSUMPTIONS = ["values are well-typed for the first declared type",
               "StringIO sources hold the XML text without an encoding declaration (lxml refuses str input with one)", "no repository/include URLs (network)",
               "in the dictionary forms every Document/Section/Property-level scalar is a string",
               "uncertainty is compared as text or by numeric value"]


def cases(depth):
    return st.fixed_dictionaries({
        "doc": conv10.doc10(depth),
        "fmt": st.sampled_from(["XML", "XML", "JSON", "YAML"]),
        "stringio": st.booleans(),
        "native": st.booleans(),
        "stringio_pos": st.sampled_from(["start", "end", "middle"]),
    })


def names_ok(expected_names, got_names, where, fails, kind):
    if len(expected_names) != len(got_names):
        fails.append(failure("conv.count", "%s: expected %d %s, converted document has %d (%r vs %r)"
                             % (where, len(expected_names), kind, len(got_names), expected_names, got_names),
                             objkind=kind))
        return False
    seen = set()
    for e, g in zip(expected_names, got_names):
        if e not in seen:
            if g != e:
                fails.append(failure("conv.renamed_first", "%s: first %s named %r became %r"
                                     % (where, kind, e, g), objkind=kind))
        elif not re.match(r"^%s-\d+$" % re.escape(e), g or ""):
            fails.append(failure("conv.suffix", "%s: repeated %s name %r became %r (expected a numeric "
                                 "suffix)" % (where, kind, e, g), objkind=kind))
        seen.add(e)
    if len(set(got_names)) != len(got_names):
        fails.append(failure("conv.names_not_unique", "%s: sibling %s names are not unique after "
                             "conversion: %r (source names %r)" % (where, kind, got_names, expected_names),
                             objkind=kind))
    return True


def norm_text(t):
    if t is None:
        return None
    t = str(t).strip()
    return t or None


def same_uncertainty(exp, got):
    if exp is None or got is None:
        return norm_text(exp) == norm_text(got)
    try:
        return float(exp) == float(got)
    except (TypeError, ValueError):
        return norm_text(exp) == norm_text(got)


def value_text(v, dtype):
    if isinstance(v, bool):
        return "true" if v else "false"
    return str(v)


def compare_values(exp_vals, got, dtype, where, fails):
    got_vals = got.values
    if len(exp_vals) != len(got_vals):
        fails.append(failure("conv.values", "%s: %d value elements %r became %d values %r"
                             % (where, len(exp_vals), exp_vals, len(got_vals), got_vals), dtype=dtype,
                             comma=any("," in v for v in exp_vals), quote=any('"' in v for v in exp_vals),
                             bracket=any(v.startswith("[") and v.endswith("]") for v in exp_vals)))
        return
    for e, g in zip(exp_vals, got_vals):
        if dtype in ("string", "text", "person", "url", None):
            ok = str(g).strip() == e
        elif dtype == "int":
            ok = g == int(e)
        elif dtype == "float":
            ok = g == float(e)
        elif dtype == "boolean":
            ok = g == (e.lower() == "true")
        else:
            ok = str(g) == e
        if not ok:
            fails.append(failure("conv.values", "%s: value %r became %r" % (where, e, g), dtype=dtype,
                                 comma="," in e, quote='"' in e,
                                 bracket=e.startswith("[") and e.endswith("]")))
            return


def compare_sec(exp, got, where, fails):
    for a in ("type", "definition", "reference"):
        if norm_text(exp[a]) != norm_text(getattr(got, a)):
            fails.append(failure("conv.section_attr", "%s: %s %r became %r" % (where, a, exp[a], getattr(got, a)),
                                 attr=a))
    if exp["id"] is not None and got.id != exp["id"]:
        fails.append(failure("conv.id", "%s: valid id %s became %s" % (where, exp["id"], got.id)))
    gprops = list(list.__iter__(got.properties))
    if names_ok([p["name"] for p in exp["props"]], [p.name for p in gprops], where, fails, "Property"):
        for e, g in zip(exp["props"], gprops):
            w = "%s:%s" % (where, e["name"])
            dt = e["dtype"]
            if dt is not None and g.dtype != dt:
                fails.append(failure("conv.dtype", "%s: dtype %r became %r" % (w, dt, g.dtype)))
            compare_values(e["values"], g, dt, w, fails)
            for a in ("unit", "definition", "reference", "value_origin", "dependency", "dependency_value"):
                if norm_text(e[a]) != norm_text(getattr(g, a)):
                    fails.append(failure("conv.property_attr", "%s: %s %r became %r"
                                         % (w, a, e[a], getattr(g, a)), attr=a))
            if not same_uncertainty(e["uncertainty"], g.uncertainty):
                fails.append(failure("conv.property_attr", "%s: uncertainty %r became %r"
                                     % (w, e["uncertainty"], g.uncertainty), attr="uncertainty"))
            if e["id"] is not None and g.id != e["id"]:
                fails.append(failure("conv.id", "%s: valid id %s became %s" % (w, e["id"], g.id)))
    gsecs = list(list.__iter__(got.sections))
    if names_ok([s["name"] for s in exp["sections"]], [s.name for s in gsecs], where, fails, "Section"):
        for e, g in zip(exp["sections"], gsecs):
            compare_sec(e, g, where + "/" + e["name"], fails)


def make_stringio(text, pos):
    """A StringIO source as callers hand it over: fresh, filled with write(), or partially read."""
    if pos == "end":
        sio = io.StringIO()
        sio.write(text)
        return sio
    sio = io.StringIO(text)
    if pos == "middle":
        sio.readline()
    return sio


def body(case):
    from ..inv import canonical_uuid
    doc = case["doc"]
    fmt = case["fmt"]
    d = env.fresh_dir("c15")
    fails = []
    classes = ["fmt:" + fmt]
    try:
        if fmt == "XML":
            text = conv10.emit_xml(doc)
        elif fmt == "JSON":
            text = conv10.emit_json(doc, case.get("native", False))
        else:
            text = conv10.emit_yaml(doc, case.get("native", False))
        exp, drops = conv10.expected(doc, dict_form=(fmt != "XML"))
        src_path = os.path.join(d, "source." + fmt.lower())
        with open(src_path, "w", encoding="utf-8") as fh:
            fh.write(text)
        with open(src_path, "rb") as fh:
            src_bytes = fh.read()
        use_stringio = case["stringio"] and fmt == "XML"
        if use_stringio:
            # lxml refuses str input that carries an encoding declaration
            text = text.split("?>\n", 1)[1]
        source = make_stringio(text, case.get("stringio_pos", "start")) if use_stringio else src_path
        classes.append("input:" + ("stringio" if use_stringio else "file"))
        conv = VersionConverter(source)
        try:
            out = conv.convert(fmt)
        except Exception as exc:
            fails.append(failure("conv.raised", "convert raised %s: %s" % (type(exc).__name__, str(exc)[:200]),
                                 fmt=fmt, exc=type(exc).__name__))
            return _nt(doc, drops), classes, fails
        log = list(conv.conversion_log)
        if use_stringio:
            if source.getvalue() != text:
                fails.append(failure("conv.source_modified", "the StringIO source was modified"))
        with open(src_path, "rb") as fh:
            if fh.read() != src_bytes:
                fails.append(failure("conv.source_modified", "the source file was modified"))
        try:
            loaded = XMLReader(ignore_errors=False, show_warnings=False).from_string(out)
        except Exception as exc:
            fails.append(failure("conv.not_loadable", "the strict reader refuses the converted document: %s: %s"
                                 % (type(exc).__name__, str(exc)[:200]), fmt=fmt,
                                 msg=re.sub(r"[0-9a-f-]{36}|line \d+", "", str(exc))[:60]))
            return _nt(doc, drops), classes, fails
        # document level
        for a in ("author", "version"):
            if norm_text(exp[a]) != norm_text(getattr(loaded, a)):
                fails.append(failure("conv.document_attr", "%s %r became %r" % (a, exp[a], getattr(loaded, a)),
                                     attr=a))
        if norm_text(exp["date"]) != norm_text(loaded.date):
            fails.append(failure("conv.document_attr", "date %r became %r" % (exp["date"], loaded.date),
                                 attr="date"))
        if exp["id"] is not None and loaded.id != exp["id"]:
            fails.append(failure("conv.id", "document id %s became %s" % (exp["id"], loaded.id)))
        gsecs = list(list.__iter__(loaded.sections))
        if names_ok([s["name"] for s in exp["sections"]], [s.name for s in gsecs], "/", fails, "Section"):
            for e, g in zip(exp["sections"], gsecs):
                compare_sec(e, g, "/" + e["name"], fails)
        for o in snap.reachable([loaded]):
            if not canonical_uuid(o.id):
                fails.append(failure("conv.id", "object has a non-canonical id %r" % o.id))
        # drops are logged
        for kind, token in drops:
            if not any(token in line for line in log):
                fails.append(failure("conv.drop_not_logged", "dropped %s %r has no conversion log entry"
                                     % (kind, token), what=kind))
                break
        # write_to_file gives the same document
        out_path = os.path.join(d, "converted.xml")
        try:
            VersionConverter(make_stringio(text, case.get("stringio_pos", "start")) if use_stringio
                             else src_path).write_to_file(out_path, fmt)
            again = XMLReader(ignore_errors=False, show_warnings=False).from_file(out_path)
            a = snap.normalize(snap.content(loaded), ids=False, trim=True)
            b = snap.normalize(snap.content(again), ids=False, trim=True)
            if a != b:
                fails.append(failure("conv.write_to_file", "write_to_file output differs from convert(): %r"
                                     % snap.diff(a, b, limit=1)))
        except Exception as exc:
            fails.append(failure("conv.write_to_file", "write_to_file / reload raised %r" % str(exc)[:150]))
        # str(converter) is the third way to obtain the converted XML (XML sources only)
        if fmt == "XML":
            try:
                as_text = str(VersionConverter(make_stringio(text, case.get("stringio_pos", "start"))
                                               if use_stringio else src_path))
                again = XMLReader(ignore_errors=False, show_warnings=False).from_string(as_text)
                a = snap.normalize(snap.content(loaded), ids=False, trim=True)
                b = snap.normalize(snap.content(again), ids=False, trim=True)
                if a != b:
                    fails.append(failure("conv.str", "str(converter) differs from convert(): %r"
                                         % snap.diff(a, b, limit=1)))
            except Exception as exc:
                fails.append(failure("conv.str", "str(converter) / reload raised %s: %s"
                                     % (type(exc).__name__, str(exc)[:120]), exc=type(exc).__name__))
        return _nt(doc, drops), classes, fails[:6]
    finally:
        env.rm(d)


def _nt(doc, drops):
    def walk(secs):
        for s in secs:
            yield s
            for x in walk(s["sections"]):
                yield x
    multi = False
    dup = False
    conflict = False
    for s in walk(doc["sections"]):
        names = [p["name"] for p in s["props"] if p["name"] is not None]
        if len(set(names)) != len(names):
            dup = True
        snames = [c["name"] for c in s["sections"]]
        if len(set(snames)) != len(snames):
            dup = True
        for p in s["props"]:
            if len(p["values"]) >= 2:
                multi = True
                for k in ("unit", "definition", "reference", "filename", "uncertainty"):
                    vals = {v[k] for v in p["values"] if v[k] is not None}
                    if len(vals) > 1:
                        conflict = True
    return multi and (dup or conflict or bool(drops))


def plan(tier):
    if tier == "quick":
        return [{"name": "conv%d" % i, "n": 150, "depth": 2} for i in range(16)] + \
            [{"name": "conv_ascii_locale", "n": 100, "depth": 2, "env": "ascii_locale"}]
    return [{"name": "conv%d" % i, "n": 2500, "depth": 3} for i in range(16)] + \
        [{"name": "conv_ascii_locale%d" % i, "n": 1000, "depth": 3, "env": "ascii_locale"} for i in range(2)]


def run(shard, seed, ctx):
    hyp.drive(ctx, "convert", hyp.in_env(cases(shard["depth"]), shard), body, shard["n"], seed)


def replay(kind, case):
    return body(case)[2]
