"""C12 - resolving links and includes only adds copies; cleaning restores the document."""
import copy
import os
import xml.etree.ElementTree as ET

from hypothesis import strategies as st

import odml

from .. import build, env, hyp, snap, spec as S
from ..core import failure

PROPERTY = "C12"
LEVEL = "exploration"
RULE = ("Hypothesis document specs (names free of '/' and ':') to which 1-3 (linking Section, target) pairs "
        "are added by construction so that the stated side conditions hold (target neither the linking "
        "Section nor an ancestor/descendant, no chained or nested links); targets at any depth, reference "
        "written by the harness's own path arithmetic as absolute or relative path, or as file URL#path of a "
        "second document saved in the scratch dir (include); linking Sections with own children of other "
        "names (restoration regime) or of the same names and types (first-sentence regime); sequences of "
        "finalize / clean cycles with a save/load in between. Oracle: independent knowledge of the intended "
        "target; after finalize own children present, a content-equal non-identical copy of every other "
        "child of the target, target and everything outside the linking subtree unchanged; restoration "
        "regime: after clean the content snapshot equals the pre-finalize one, the stored reference still "
        "resolves (harness resolver) to the same target, is_merged False, the saved file (xml.etree) holds "
        "the reference and only own children. Non-trivial = >= 1 link whose target has >= 1 Property and >= 1 "
        "sub-Section with a relative path or depth >= 2")
ASSUMPTIONS = ["same-named children of linking Section and target have the same type / dtype (a same-named "
               "child of another type or with unconvertible values makes the library refuse the link, which "
               "the property's first sentence does not fix either way)",
               "include targets are fetched through file: URLs only"]


def small_sec(name, depth):
    return S.sec_spec(name, depth, max_secs=2, max_props=2, text_classes=["plain", "comma", "edgeblank"], pathsafe=True,
                      tuples=False)


@st.composite
def link_spec(draw, i):
    tname = draw(st.sampled_from(["target%d", "target%d", "tar#get%d", "t #%d"])) % i
    target = draw(small_sec(tname, 2))
    kind = draw(st.sampled_from(["link_abs", "link_rel", "link_rel", "include", "include"]))
    regime = draw(st.sampled_from(["restore", "restore", "overlap"]))
    own = draw(small_sec("linking%d" % i, 1))
    return {"target": target, "kind": kind, "regime": regime, "own": own,
            "t_at": draw(st.integers(0, 30)), "l_at": draw(st.integers(0, 30)),
            "decoy": draw(st.booleans()),
            "l_has_defs": draw(st.booleans()),
            # a float 'nan' (not equal to itself) among the target's values / uncertainties
            "nan": draw(st.lists(st.tuples(st.integers(0, 9), st.sampled_from(["uncertainty", "value"])).map(list),
                                 max_size=2))}


@st.composite
def cases(draw, max_depth):
    doc = draw(S.doc_spec(max_depth=max_depth, max_secs=3, max_props=2, text_classes=["plain", "comma"],
                          pathsafe=True, tuples=False))
    n = draw(st.integers(1, 3))
    links = [draw(link_spec(i)) for i in range(n)]
    seq = draw(st.lists(st.sampled_from(["finalize", "clean", "saveload", "finalize", "clean"]),
                        min_size=2, max_size=7))
    return {"doc": doc, "links": links, "seq": ["finalize"] + seq + ["clean"]}


# ------------------------------------------------------------------------------------

def own_path(sec):
    """Harness path arithmetic: list of names from the document down to sec."""
    names = []
    node = sec
    while node is not None and snap.kind(node) == "sec":
        names.insert(0, node.name)
        node = node._parent
    return names


def rel_path(frm, to):
    a, b = own_path(frm), own_path(to)
    i = 0
    while i < len(a) and i < len(b) and a[i] == b[i]:
        i += 1
    return "/".join([".."] * (len(a) - i) + b[i:])


def resolve(start, doc, text):
    """Independent resolver of a path as the format defines it."""
    if text.startswith("/"):
        node = doc
        parts = [p for p in text[1:].split("/")]
    else:
        node = start
        parts = text.split("/")
    for p in parts:
        if p == "" or p == ".":
            continue
        if p == "..":
            node = node._parent if snap.kind(node) == "sec" else None
        else:
            cands = [c for c in list.__iter__(node.sections) if c.name == p]
            node = cands[0] if cands else None
        if node is None:
            return None
    return node


def _no_uncertainty(spec):
    """uncertainty is not this property's subject (its XML re-typing is known finding C01-F1)."""
    import copy
    spec = copy.deepcopy(spec)

    def walk(s):
        for p in s.get("props", []):
            p["uncertainty"] = None
        for c in s.get("sections", []):
            walk(c)
    walk(spec)
    return spec


def setup(case, tmpdir):
    case = dict(case, doc=_no_uncertainty(case["doc"]),
                links=[dict(ls, own=_no_uncertainty(ls["own"]), target=_no_uncertainty(ls["target"]))
                       for ls in case["links"]])
    doc = build.build_doc(case["doc"])
    base = [doc] + sorted([o for o in snap.reachable([doc]) if snap.kind(o) == "sec"],
                          key=lambda o: o.get_path())
    info = []
    ext_doc = None
    for i, ls in enumerate(case["links"]):
        tpar = base[ls["t_at"] % len(base)]
        lpar = base[ls["l_at"] % len(base)]
        own = ls["own"]
        linking = build.build_sec(own)
        # (a NaN uncertainty only where no XML file is involved: the XML reader re-types every numeric
        # uncertainty, known finding C01-F1, which is not this property's subject)
        through_xml = ls["kind"] == "include" or "saveload" in case["seq"]
        picks = [pk for pk in ls.get("nan", []) if not (through_xml and pk[1] == "uncertainty")]
        target = build.build_sec(S.inject_nan({"sections": [copy.deepcopy(ls["target"])]},
                                              picks)["sections"][0])
        if ls["l_has_defs"]:
            linking.definition = linking.definition or "own definition"
            linking.reference = linking.reference or "own reference"
        if ls["regime"] == "overlap":
            # give the linking Section children named (and typed) like some of the target's
            for n_, ch in enumerate(list.__iter__(target.sections)):
                if ch.name in linking.sections:
                    mine = linking.sections[ch.name]
                    mine.type = ch.type
                    # keep the recursion mergeable as well: the own child carries no children that
                    # could clash (type / dtype) with the target's grandchildren
                    for x in list(list.__iter__(mine.properties)) + list(list.__iter__(mine.sections)):
                        mine.remove(x)
                elif n_ == 0:
                    odml.Section(name=ch.name, type=ch.type, parent=linking)
            for n_, ch in enumerate(list.__iter__(target.properties)):
                if ch.name in linking.properties:
                    # same-named Properties must be mergeable (same dtype); anything else is refused
                    # by the library and outside what the property fixes
                    mine = linking.properties[ch.name]
                    mine.values = []
                    mine.dtype = ch.dtype
                    mine.values = ch.values[:1]
                elif n_ == 0:
                    odml.Property(name=ch.name, values=ch.values, dtype=ch.dtype, parent=linking)
        else:
            # disjoint names by construction
            for ch in list(list.__iter__(linking.sections)):
                ch.name = "own~~" + ch.name
            for ch in list(list.__iter__(linking.properties)):
                ch.name = "own~~" + ch.name
        lpar.append(linking)
        # a sibling placed before the target whose name differs from the target's only in case
        decoy = None
        if ls.get("decoy"):
            decoy = odml.Section(name=target.name.upper(), type="decoy")
            odml.Section(name="decoy-child", type="t", parent=decoy)
            odml.Property(name="decoy-prop", values=["d"], parent=decoy)
        if ls["kind"] == "include":
            if ext_doc is None:
                ext_doc = odml.Document(author="external")
                holder = odml.Section(name="holder", type="t", parent=ext_doc)
            holder = ext_doc.sections["holder"]
            if decoy is not None:
                holder.append(decoy)
            holder.append(target)
        else:
            if decoy is not None:
                tpar.append(decoy)
            tpar.append(target)
        info.append({"linking": linking, "target": target, "kind": ls["kind"], "regime": ls["regime"]})
    ext_path = None
    if ext_doc is not None:
        ext_path = os.path.join(tmpdir, "external.xml")
        odml.save(ext_doc, ext_path)
    # now write the references (not yet resolved: use the private attribute like a reader would
    # via the constructor; the public route is finalize())
    for it in info:
        L, T = it["linking"], it["target"]
        if it["kind"] == "include":
            it["text"] = "file://%s#/holder/%s" % (ext_path, T.name)
            L._include = it["text"]
        elif it["kind"] == "link_abs":
            it["text"] = "/" + "/".join(own_path(T))
            L._link = it["text"]
        else:
            it["text"] = rel_path(L, T)
            L._link = it["text"]
    return doc, info, ext_doc


def img(obj, **kw):
    # whitespace is not this property's subject: XML does not keep it (C01)
    kw.setdefault("trim", True)
    return snap.normalize(snap.content(obj), **kw)


def strip_links(image):
    """Content image without the stored link text (compared through the resolver instead)."""
    out = dict(image)
    out.pop("link", None)
    if "sections" in out:
        out["sections"] = [strip_links(s) for s in out["sections"]]
    return out


def check_finalized(doc, info, pre, fails, where):
    for it in info:
        L, T = it["linking"], it["target"]
        if not L.is_merged:
            fails.append(failure("link.not_resolved", "%s: %s %r is not merged after finalize"
                                 % (where, it["kind"], it["text"]), kind=it["kind"]))
            continue
        t_children = list(list.__iter__(T.sections)) + list(list.__iter__(T.properties))
        own_names = pre[id(L)]["own_names"]
        for ch in t_children:
            k = snap.kind(ch)
            mine = [c for c in (list.__iter__(L.sections) if k == "sec" else list.__iter__(L.properties))
                    if c.name == ch.name]
            if not mine:
                fails.append(failure("link.copy_missing", "%s: linking Section %r lacks a copy of the target's "
                                     "%s %r" % (where, L.name, k, ch.name), kind=it["kind"]))
                continue
            if (k, ch.name) in own_names:
                continue        # presence only
            if mine[0] is ch:
                fails.append(failure("link.shares_object", "%s: the linking Section received the target's "
                                     "child itself, not a copy" % where, kind=it["kind"]))
            a = img(ch, ids=False, merged=False)
            b = img(mine[0], ids=False, merged=False)
            if a != b:
                d = snap.diff(a, b, limit=1)
                fails.append(failure("link.copy_differs", "%s: copy of %s %r differs from the target's: %r"
                                     % (where, k, ch.name, d[:1]), kind=it["kind"]))
        # own children still there
        for (k, name) in own_names:
            lst = list.__iter__(L.sections) if k == "sec" else list.__iter__(L.properties)
            if not any(c.name == name for c in lst):
                fails.append(failure("link.own_child_lost", "%s: own %s %r of the linking Section is gone"
                                     % (where, k, name), kind=it["kind"]))


def body(case):
    tmpdir = env.fresh_dir("c12")
    fails = []
    classes = []
    try:
        doc, info, ext_doc = setup(case, tmpdir)
        for it in info:
            classes.append("link:%s/%s" % (it["kind"], it["regime"]))
        restore_only = all(it["regime"] == "restore" for it in info)
        pre_img = strip_links(img(doc))
        pre = {}
        for it in info:
            L = it["linking"]
            pre[id(L)] = {"own_names": {("sec", c.name) for c in list.__iter__(L.sections)} |
                          {("prop", c.name) for c in list.__iter__(L.properties)}}
        # everything outside the linking subtrees, and the targets
        linking_objs = set()
        for it in info:
            linking_objs |= {id(o) for o in snap.reachable([it["linking"]])}
        outside = [o for o in snap.reachable([doc]) if id(o) not in linking_objs]
        for it in info:
            if it["kind"] == "include":
                pass
        state = "clean"
        cur_doc, cur_info = doc, info
        for step_no, step in enumerate(case["seq"]):
            where = "step %d %s" % (step_no, step)
            if step == "finalize":
                before_out = snap.identity(outside) if cur_doc is doc else None
                try:
                    cur_doc.finalize()
                except Exception as exc:
                    fails.append(failure("link.finalize_raised", "%s raised %s: %s"
                                         % (where, type(exc).__name__, str(exc)[:150]),
                                         kinds=sorted({i["kind"] for i in cur_info}),
                                         regimes=sorted({i["regime"] for i in cur_info})))
                    break
                state = "final"
                check_finalized(cur_doc, cur_info, pre, fails, where)
                if before_out is not None:
                    d = snap.identity_diff(before_out, snap.identity(outside))
                    if d:
                        fails.append(failure("link.outside_changed", "%s changed an object outside the linking "
                                             "Sections (targets included): %s %s %r -> %r"
                                             % (where, d[0][1], d[0][2], d[0][3], d[0][4]), key=d[0][2]))
            elif step == "clean":
                try:
                    cur_doc.clean()
                except Exception as exc:
                    fails.append(failure("link.clean_raised", "%s raised %s: %s"
                                         % (where, type(exc).__name__, str(exc)[:150])))
                    break
                state = "clean"
                for it in cur_info:
                    L, T = it["linking"], it["target"]
                    if L.is_merged:
                        fails.append(failure("link.still_merged", "%s: is_merged is still True" % where))
                    if it["kind"] != "include":
                        if L.link is None:
                            fails.append(failure("link.reference_lost", "%s: the link is gone after clean"
                                                 % where))
                        else:
                            got = resolve(L, cur_doc, L.link)
                            if got is not T:
                                fails.append(failure("link.reference_moved", "%s: stored link %r (was %r) no "
                                                     "longer designates the target %s"
                                                     % (where, L.link, it["text"], "/".join(own_path(T))),
                                                     kind=it["kind"]))
                    elif L.include != it["text"]:
                        fails.append(failure("link.reference_lost", "%s: include changed from %r to %r"
                                             % (where, it["text"], L.include)))
                if restore_only:
                    now = strip_links(img(cur_doc))
                    if now != pre_img:
                        d = snap.diff(pre_img, now, limit=2)
                        loc = {}
                        if d:
                            loc = {"attr": d[0][1], "objkind": d[0][4],
                                   "filled_from_target": d[0][1] in ("definition", "reference")
                                   and d[0][2] == ["none"]}
                        fails.append(failure("link.not_restored", "%s: the document differs from the "
                                             "pre-finalize one: %r" % (where, d[:2]), **loc))
            else:  # saveload (always from the cleaned state)
                if state != "clean":
                    cur_doc.clean()
                    state = "clean"
                path = os.path.join(tmpdir, "doc%d.xml" % step_no)
                try:
                    odml.save(cur_doc, path)
                except Exception as exc:
                    fails.append(failure("link.save_raised", "%s: save after clean raised %r" % (where, exc)))
                    break
                # the file holds the references and none of the referenced content
                root = ET.parse(path).getroot()
                for it in cur_info:
                    L = it["linking"]
                    els = [e for e in root.iter("section")
                           if (e.findtext("name") or "").strip() == L.name]
                    if len(els) != 1:
                        continue
                    el = els[0]
                    tag = "include" if it["kind"] == "include" else "link"
                    if not (el.findtext(tag) or "").strip():
                        fails.append(failure("link.file_without_reference", "%s: saved file has no <%s> for %r"
                                             % (where, tag, L.name)))
                    if restore_only:
                        names = {("sec", (c.findtext("name") or "").strip()) for c in el.findall("section")} | \
                                {("prop", (c.findtext("name") or "").strip()) for c in el.findall("property")}
                        if names != pre[id(L)]["own_names"]:
                            fails.append(failure("link.file_has_referenced_content", "%s: saved linking Section "
                                                 "%r has children %r, own children are %r"
                                                 % (where, L.name, sorted(names),
                                                    sorted(pre[id(L)]["own_names"]))))
                loaded = odml.load(path, show_warnings=False)
                if restore_only and strip_links(img(loaded)) != pre_img:
                    d = snap.diff(pre_img, strip_links(img(loaded)), limit=2)
                    fails.append(failure("link.saveload_differs", "%s: the re-loaded document differs from the "
                                         "original: %r" % (where, d[:2]),
                                         attr=d[0][1] if d else None))
                # continue the history on the loaded document
                new_info = []
                ok = True
                for it in cur_info:
                    L = resolve(None, loaded, "/" + "/".join(own_path(it["linking"])))
                    T = it["target"] if it["kind"] == "include" else \
                        resolve(None, loaded, "/" + "/".join(own_path(it["target"])))
                    if L is None or T is None:
                        ok = False
                        break
                    new_info.append(dict(it, linking=L, target=T))
                    pre[id(L)] = pre[id(it["linking"])]
                if not ok:
                    fails.append(failure("link.saveload_differs", "%s: linking Section or target missing from "
                                         "the re-loaded document" % where))
                    break
                cur_doc, cur_info = loaded, new_info
                outside = []
            if fails:
                break
        nt = any((it["kind"] == "link_rel" or len(own_path(it["target"])) >= 2) and
                 len(it["target"].properties) >= 1 and len(it["target"].sections) >= 1 for it in info)
        return nt, classes, fails[:6]
    finally:
        env.rm(tmpdir)


def plan(tier):
    if tier == "quick":
        return [{"name": "links%d" % i, "n": 110, "depth": 2} for i in range(16)]
    return [{"name": "links%d" % i, "n": 1500, "depth": 3} for i in range(16)]


def run(shard, seed, ctx):
    hyp.drive(ctx, "links", cases(shard["depth"]), body, shard["n"], seed)


def replay(kind, case):
    return body(case)[2]
