"""C05 - Property values always conform to the Property's dtype, in normal form."""
from .. import hyp, value_engine as V

PROPERTY = "C05"
LEVEL = "exploration"
RULE = ("Hypothesis-generated histories of value-editing steps (constructor, values=, dtype= incl. DType "
        "members/None/invalid names, append, extend, insert, item assignment, remove, merge, clone; strict "
        "on/off) on two Properties; inputs drawn from native values of every type, their text forms, near "
        "misses, None/empty, mixed lists, bracketed strings, tuple syntax as text/list/nested list, dict, "
        "set, bytes, generators and other Properties. After every step: each stored value has exactly the "
        "Python type of the dtype, dtype is None (no values) or canonical, a refusal is a ValueError "
        "(IndexError for an index, AttributeError for an invalid dtype name) and leaves (values, dtype) "
        "identical, p.values = p.values is a no-op and text-and-back is the identity. Non-trivial = a "
        "history with >= 1 refused conversion and >= 1 dtype change with values present")
ASSUMPTIONS = ["a data type name given in another case is stored in lower case; the two short forms 'str' and "
               "'bool' are stored as given (the repository's tests pin this) with str / bool values",
               "indices passed to insert / item assignment are ints"]


def body(history):
    flags, classes, fails = V.run_history(history)
    nt = flags["refused_conv"] >= 1 and flags["dtype_changes"] >= 1
    return nt, classes, fails


def plan(tier):
    nshards, n, steps = (16, 1500, 14) if tier == "quick" else (16, 30000, 24)
    return [{"name": "hist%d" % i, "n": n, "steps": steps} for i in range(nshards)]


def run(shard, seed, ctx):
    hyp.drive(ctx, "history", V.histories(shard["steps"]), body, shard["n"], seed)


def replay(kind, case):
    return body([list(s) for s in case])[2]
