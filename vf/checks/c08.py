"""C08 - validation reports exactly the issues the documented rules prescribe."""
from hypothesis import strategies as st

from odml.validation import Validation

from .. import build, hyp, snap, spec as S
from ..core import failure
from ..model import rules as R

PROPERTY = "C08"
LEVEL = "exploration"
RULE = ("Hypothesis document specs plus a list of invalidating edits applied through the public API (shared "
        "ids via new_id/keep_id clones incl. the Document id, cleared / empty / 'n.s.' types, unnamed objects, "
        "dependencies naming an existing Property / a missing one / a name that also belongs to a sub-Section, "
        "dependency targets with int, empty and multi values, dependency_value equal / unequal / unset, "
        "cardinalities placed on, below and above the child count) and two edits through private attributes "
        "for the states the API no longer admits (duplicate sibling names, values inconsistent with the "
        "dtype); validated as Document, as stand-alone Section and as stand-alone Property. Oracle: an "
        "independent re-implementation of each documented rule; per (object, kind): reported iff expected, "
        "with the documented rank; duplicate ids compared per id value and count; validation never raises. "
        "Non-trivial = >= 1 expected issue and >= 1 object without any")
ASSUMPTIONS = [
    "kinds 403 (prototype string heuristic), 400 and 600 (not default) are neither required nor forbidden",
    "dependency rule: required when the target is missing or dependency_value is a non-empty text occurring "
    "in no value of the target; forbidden when the target has exactly one value whose text equals it; "
    "everything in between may go either way",
    "duplicate-id rules are only required when a Document is validated",
    "duplicate sibling names / dtype-inconsistent values are produced through private attributes because no "
    "public route admits them",
]

EDIT = st.tuples(st.sampled_from(["dup_id", "dup_id_doc", "clone_keep_id", "type", "unname", "dep_existing",
                                  "dep_missing", "dep_subsection", "card_on", "card_below", "card_above",
                                  "force_dup_secname", "force_dup_propname", "force_bad_value", "joined_pair", "joined_pair",
                                  "link", "link_type",
                                  "dep_existing", "dep_existing"]),
                 st.integers(0, 30), st.integers(0, 30), st.integers(0, 5)).map(list)


def cases(max_depth):
    return st.fixed_dictionaries({
        "doc": S.doc_spec(max_depth=max_depth, max_secs=3, max_props=3,
                          text_classes=["plain", "comma", "lookalike", "nonascii"]),
        "edits": st.lists(EDIT, min_size=0, max_size=6),
        "as": st.sampled_from(["doc", "doc", "section", "property"]),
        "pick": st.integers(0, 30),
    })


def apply_edit(doc, edit):
    op, a, b, c = edit
    secs = [o for o in snap.reachable([doc]) if snap.kind(o) == "sec"]
    props = [o for o in snap.reachable([doc]) if snap.kind(o) == "prop"]
    secs.sort(key=lambda o: o.get_path())
    props.sort(key=lambda o: o.get_path())
    nodes = secs + props
    if not nodes:
        return None
    if op == "dup_id":
        x, y = nodes[a % len(nodes)], nodes[b % len(nodes)]
        if x is not y:
            y.new_id(x.id)
            return "dup_id"
    elif op == "dup_id_doc":
        nodes[a % len(nodes)].new_id(doc.id)
        return "dup_id_doc"
    elif op == "clone_keep_id":
        if secs:
            src = secs[a % len(secs)]
            try:
                cl = src.clone(keep_id=True)
            except Exception:
                return None     # a Section with forced duplicate names cannot be cloned
            cl.name = "clone-%d" % b
            dst = secs[b % len(secs)]
            if dst is not src and dst not in snap.reachable([src]):
                try:
                    dst.append(cl)
                    return "clone_keep_id"
                except Exception:
                    return None
    elif op in ("link", "link_type"):
        # a Section that resolved a link (is_merged) is validated like any other
        if len(secs) >= 2:
            x, y = secs[a % len(secs)], secs[b % len(secs)]
            if x is not y and x not in snap.reachable([y]) and y not in snap.reachable([x]):
                try:
                    x.link = y.get_path()
                except Exception:
                    return None
                if op == "link_type":
                    x.type = [None, "", "n.s."][c % 3]
                return op if x.is_merged else None
    elif op == "type":
        if secs:
            secs[a % len(secs)].type = [None, "", "n.s.", "N.S.", " "][c % 5]
            return "type"
    elif op == "unname":
        nodes[a % len(nodes)].name = None if c % 2 else ""
        return "unname"
    elif op in ("dep_existing", "dep_missing", "dep_subsection"):
        if not props:
            return None
        p = props[a % len(props)]
        sibs = [q for q in list.__iter__(p.parent.properties) if q is not p]
        if op == "dep_existing" and sibs:
            t = sibs[b % len(sibs)]
            p.dependency = t.name
            mode = c % 6
            if mode == 0 and t.values:
                p.dependency_value = str(t.values[b % len(t.values)])
            elif mode == 1:
                p.dependency_value = None
            elif mode == 2:
                p.dependency_value = "no-such-value-%d" % b
            elif mode == 3:
                t.values = []
                p.dependency_value = "x"
            elif mode == 4:
                try:
                    t.values = []
                    t.dtype = "int"
                    t.values = [1, 2] if b % 2 else [7]
                except Exception:
                    pass
                p.dependency_value = "7" if b % 3 else "1"
            else:
                if t.values:
                    p.dependency_value = str(t.values[0])[:1] or "q"
            return "dep_existing:%d" % mode
        if op == "dep_missing":
            p.dependency = "missing-%d" % b
            p.dependency_value = [None, "v"][c % 2]
            return "dep_missing"
        if op == "dep_subsection":
            subs = list(list.__iter__(p.parent.sections))
            if subs:
                p.dependency = subs[b % len(subs)].name
                p.dependency_value = [None, "v"][c % 2]
                return "dep_subsection"
    elif op in ("card_on", "card_below", "card_above"):
        o = nodes[a % len(nodes)]
        which = b % 2
        if snap.kind(o) == "prop":
            n, attr = len(o.values), "val_cardinality"
        elif which:
            n, attr = len(o.sections), "sec_cardinality"
        else:
            n, attr = len(o.properties), "prop_cardinality"
        if op == "card_on":
            val = [(n, n), (n, None), (None, n), (0, n)][c % 4] if n else None
        elif op == "card_below":
            val = [(n + 1, None), (n + 1, n + 2), (n + 2, n + 2)][c % 3]
        else:
            val = [(None, n - 1), (0, n - 1), (n - 1, n - 1)][c % 3] if n >= 2 else None
        try:
            setattr(o, attr, val)
            return op
        except ValueError:
            return None
    elif op == "joined_pair":
        # two siblings whose (name, type) pairs differ but coincide when joined by a separator
        cands = [s for s in secs if len(s.parent.sections) >= 2]
        if cands:
            s1 = cands[a % len(cands)]
            s2 = [x for x in list.__iter__(s1.parent.sections) if x is not s1][b % (len(s1.parent.sections) - 1)]
            sep = ["/", "/", " ", ",", ":", "/"][c % 6]
            try:
                s1.name, s1.type = "jx" + sep + "jy", "jz"
                s2.name, s2.type = "jx", "jy" + sep + "jz"
                return "joined_pair"
            except Exception:
                return None
    elif op == "force_dup_secname":
        cands = [s for s in secs if len(s.parent.sections) >= 2]
        if cands:
            s = cands[a % len(cands)]
            sib = [x for x in list.__iter__(s.parent.sections) if x is not s][b % (len(s.parent.sections) - 1)]
            s._name = sib.name
            if c % 2:
                s.type = sib.type
            return "force_dup_secname:" + ("same_type" if s.type == sib.type else "other_type")
    elif op == "force_dup_propname":
        cands = [p for p in props if len(p.parent.properties) >= 2]
        if cands:
            p = cands[a % len(cands)]
            sib = [x for x in list.__iter__(p.parent.properties) if x is not p][b % (len(p.parent.properties) - 1)]
            p._name = sib.name
            return "force_dup_propname"
    elif op == "force_bad_value":
        cands = [p for p in props if p.values and p.dtype in ("string", "text", "person", "url")]
        if cands:
            p = cands[a % len(cands)]
            p._values = ["not-a-number"] + list(p._values)
            p._dtype = ["int", "float", "date", "boolean"][c % 4]
            return "force_bad_value"
    return None


def body(case):
    doc = build.build_doc(case["doc"])
    classes = []
    for e in case["edits"]:
        tag = apply_edit(doc, e)
        if tag:
            classes.append("edit:" + tag)
    mode = case["as"]
    target = doc
    secs = sorted([o for o in snap.reachable([doc]) if snap.kind(o) == "sec"], key=lambda o: o.get_path())
    props = sorted([o for o in snap.reachable([doc]) if snap.kind(o) == "prop"], key=lambda o: o.get_path())
    if mode == "section" and secs:
        target = secs[case["pick"] % len(secs)]
        if case["pick"] % 2:
            target.parent.remove(target)          # a detached, stand-alone Section
            classes.append("standalone:detached")
    elif mode == "property" and props:
        target = props[case["pick"] % len(props)]
        if case["pick"] % 2:
            target.parent.remove(target)
            classes.append("standalone:detached")
    else:
        mode = "doc"
    classes.append("validated_as:" + mode)
    fails = []
    required, forbidden, id_counts, objs = R.expect(target)
    byid = {id(o): o for o in objs}
    results = []
    for how in ("Validation", "validate"):
        if how == "validate" and mode != "doc":
            continue
        try:
            v = Validation(target) if how == "Validation" else target.validate()
        except Exception as exc:
            fails.append(failure("validation.raised", "%s of a %s raised %s: %s"
                                 % (how, mode, type(exc).__name__, str(exc)[:150]), mode=mode,
                                 exc=type(exc).__name__, edits=sorted(set(classes))))
            return bool(required), classes, fails
        results.append(v)
    v = results[0]
    reported = {}
    for e in v.errors:
        knd = e.validation_id.value if e.validation_id is not None else None
        reported.setdefault((id(e.obj), knd), []).append(e.rank)
    desc = lambda o: "%s %r" % (snap.kind(o), getattr(o, "name", "<doc>"))  # noqa
    for (oid, knd) in required:
        if (oid, knd) not in reported:
            fails.append(failure("validation.missing", "rule %d is violated at %s but no issue was reported "
                                 "(validated as %s)" % (knd, desc(byid[oid]), mode), kind=knd, mode=mode,
                                 objkind=snap.kind(byid[oid]),
                                 own_property_of_standalone_section=bool(
                                     mode == "section" and snap.kind(byid[oid]) == "prop"
                                     and byid[oid]._parent is target)))
    for (oid, knd), ranks in reported.items():
        if oid not in byid:
            fails.append(failure("validation.foreign_object", "issue %s reported for an object outside the "
                                 "validated graph" % knd, kind=knd))
            continue
        if (oid, knd) in forbidden:
            fails.append(failure("validation.spurious", "issue %d reported at %s although the rule holds there "
                                 "(validated as %s)" % (knd, desc(byid[oid]), mode), kind=knd, mode=mode,
                                 objkind=snap.kind(byid[oid])))
        want = R.RANK.get(knd)
        if want and any(r != want for r in ranks):
            fails.append(failure("validation.rank", "issue %d reported with rank %r, documented rank is %s"
                                 % (knd, ranks, want), kind=knd))
    if id_counts is not None:
        got = {}
        for e in v.errors:
            if e.validation_id is not None and e.validation_id.value in (200, 201):
                got[e.obj.id] = got.get(e.obj.id, 0) + 1
        for idv, m in id_counts.items():
            if got.get(idv, 0) != m - 1:
                fails.append(failure("validation.duplicate_ids", "id %s is carried by %d objects: expected %d "
                                     "duplicate-id errors, got %d" % (idv, m, m - 1, got.get(idv, 0)),
                                     multiplicity=m))
        for idv in got:
            if idv not in id_counts:
                fails.append(failure("validation.duplicate_ids", "duplicate-id error for unknown id %s" % idv))
    # the two entry points agree
    if len(results) == 2:
        sig = [sorted((id(e.obj), e.validation_id.value, e.rank) for e in r.errors) for r in results]
        if sig[0] != sig[1]:
            fails.append(failure("validation.entry_points_differ", "Validation(doc) and doc.validate() differ"))
    nt = bool(required) and len(objs) > len({oid for (oid, _) in required})
    return nt, classes, fails


def plan(tier):
    if tier == "quick":
        return [{"name": "val%d" % i, "n": 220, "depth": 3} for i in range(16)]
    return [{"name": "val%d" % i, "n": 3500, "depth": 4} for i in range(16)]


def run(shard, seed, ctx):
    hyp.drive(ctx, "validate", cases(shard["depth"]), body, shard["n"], seed)


def replay(kind, case):
    return body(case)[2]
