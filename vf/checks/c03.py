"""C03 - a document is always a well-formed tree, whatever editing history produced it."""
from .. import hyp, tree_engine as T

PROPERTY = "C03"
LEVEL = "exploration"
RULE = ("Hypothesis-generated histories (lists of steps over a universe of attached and detached "
        "Documents/Sections/Properties; plain steps address any object, targeted steps construct the "
        "pre-states the property names: clash at destination, already attached elsewhere, destination "
        "inside the moved subtree, negative reorder index ...). Invariants I1-I5 are evaluated over the "
        "whole universe after every step, refused or not. Non-trivial = a history with >= 1 refused "
        "step and >= 1 successful move of an object that was attached elsewhere; distinct = distinct history")
ASSUMPTIONS = ["merge/link steps are only applied to Sections that are not ancestor/descendant of each other",
               "a history stops at the first step after which an invariant fails"]


def body(history):
    flags, classes, fails = T.run_history(history, want=("tree",))
    nt = flags["refused"] >= 1 and flags["moved"] >= 1
    return nt, classes, fails


def plan(tier):
    nshards, n, steps = (16, 1200, 25) if tier == "quick" else (16, 25000, 60)
    return [{"name": "hist%d" % i, "n": n, "steps": steps} for i in range(nshards)]


def run(shard, seed, ctx):
    hyp.drive(ctx, "history", T.histories(shard["steps"]), body, shard["n"], seed)


def replay(kind, case):
    return body([list(s) for s in case])[2]
