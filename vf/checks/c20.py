"""C20 - searches over exported RDF return exactly the matching objects."""
import copy
import itertools
import re

from hypothesis import strategies as st

from odml.rdf.fuzzy_finder import FuzzyFinder
from odml.rdf.query_creator import QueryCreator, QueryParser
from odml.tools.rdf_converter import RDFWriter

from .. import build, hyp, snap, spec as S
from ..core import failure

PROPERTY = "C20"
LEVEL = "exploration"
RULE = ("Hypothesis sets of 1-3 document specs exported without Section sub-classing; queries of 1-3 "
        "(attribute, value) pairs over one kind (Document: author, date, version, id; Section: name, type, "
        "definition, reference, id; Property: name, definition, dtype, unit, uncertainty, reference, "
        "value_origin, id, value list) or spanning kinds (Doc+Sec, Sec+Prop, Doc+Sec+Prop, Doc+Prop), values "
        "harvested from the documents (hits) or fresh (misses), free of the query syntax characters; passed "
        "as string and as dictionary; match and fuzzy mode. Oracle: an independent evaluation of every "
        "non-empty combination on the source documents (node carries all requested values; kinds related by "
        "direct containment); the finder output is parsed into blocks and compared: a block exactly for the "
        "combinations with a hit, each once, most specific first, per block the set of nodes per queried "
        "kind. Non-trivial = a query with >= 2 pairs where some but not all sub-combinations hit")
ASSUMPTIONS = ["a Document+Property combination without a Section has no containment reading: only per-node "
               "soundness and completeness are required for it",
               "values are compared by their text (str of the attribute value)",
               "query values contain none of , ( ) : \" and no surrounding blanks"]

NS = "https://g-node.org/odml-rdf#"
DOC_ATTRS = ["author", "date", "version", "id"]
SEC_ATTRS = ["name", "type", "definition", "reference", "id"]
PROP_ATTRS = ["name", "definition", "dtype", "unit", "uncertainty", "reference", "value_origin", "id"]
KIND_ATTRS = {"Doc": DOC_ATTRS, "Sec": SEC_ATTRS, "Prop": PROP_ATTRS + ["value"]}
PRED = {"Doc": {"hasAuthor": "author", "hasDate": "date", "hasDocVersion": "version", "hasId": "id"},
        "Sec": {"hasName": "name", "hasType": "type", "hasDefinition": "definition",
                "hasReference": "reference", "hasId": "id"},
        "Prop": {"hasName": "name", "hasDefinition": "definition", "hasDtype": "dtype", "hasUnit": "unit",
                 "hasUncertainty": "uncertainty", "hasReference": "reference",
                 "hasValueOrigin": "value_origin", "hasId": "id"}}
VAR_KIND = {"d": "Doc", "s": "Sec", "p": "Prop"}
BAD = set(',():"')       # the query syntax characters the property excludes; everything else is a value

_W = st.sampled_from(["alpha", "beta", "gamma", "delta", "rec 1", "x-y", "Zeta", "ünï", "v1.2", "a_b", "42", "7",
                      "a{0}b", "{x}", "c}d", "{", "50%", "a;b", "q?", "$1", "a b  c",
                      # characters that need escaping inside a quoted SPARQL string
                      "back\\slash", "C:\\new\\table", "it's", "line1\nline2", "tab\there", "a<b>c", "cr\rx",
                      "end\\"])


def ok_value(v):
    return isinstance(v, str) and v != "" and v == v.strip() and not (set(v) & BAD)


@st.composite
def small_doc(draw, k):
    def prop(i):
        dtype = draw(st.sampled_from(["string", "int", "float", "date"]))
        vals = {"string": draw(st.lists(_W, max_size=3)),
                "int": draw(st.lists(st.integers(0, 9), max_size=3)),
                "float": draw(st.lists(st.sampled_from([0.5, 1.5, 2.25]), max_size=2)),
                "boolean": draw(st.lists(st.booleans(), max_size=2)),
                "date": draw(st.lists(st.sampled_from(["2020-01-01", "2021-02-03"]), max_size=2))}[dtype]
        return {"k": "prop", "name": "%s" % draw(st.sampled_from(["alpha", "beta", "p%d" % i])) + str(i),
                "id": None, "dtype": dtype, "values": vals,
                "unit": draw(st.one_of(st.none(), st.sampled_from(["mV", "s", "alpha"]))),
                "uncertainty": draw(st.one_of(st.none(), st.sampled_from([0.5, 2, 0.25]))),
                "definition": draw(st.one_of(st.none(), _W)), "reference": draw(st.one_of(st.none(), _W)),
                "dependency": None, "dependency_value": None,
                "value_origin": draw(st.one_of(st.none(), _W)), "val_card": None}

    def sec(depth, i):
        sname = draw(st.sampled_from(["alpha", "beta", "gamma"])) + str(i)
        return {"k": "sec", "name": sname,
                # a Section whose type repeats its name is common in real files ("subject"/"subject")
                "type": draw(st.sampled_from(["t", "alpha", "rec 1", "beta", sname])), "id": None,
                "definition": draw(st.one_of(st.none(), _W)), "reference": draw(st.one_of(st.none(), _W)),
                "repository": None, "link": None, "include": None, "sec_card": None, "prop_card": None,
                "props": [prop(j) for j in range(draw(st.integers(0, 3)))],
                "sections": [sec(depth - 1, j) for j in range(draw(st.integers(0, 2)))] if depth > 0 else []}
    return {"k": "doc", "id": None, "author": draw(st.one_of(st.none(), _W)),
            "version": draw(st.one_of(st.none(), _W)),
            "date": draw(st.one_of(st.none(), st.sampled_from(["2020-01-01", "2019-12-31"]))),
            "repository": None, "sections": [sec(1, j) for j in range(draw(st.integers(0, 3)))]}


@st.composite
def cases(draw):
    n = draw(st.integers(1, 3))
    docs = [draw(small_doc(i)) for i in range(n)]
    shape = draw(st.sampled_from(["Doc", "Sec", "Prop", "Sec", "Prop", "Doc+Sec", "Sec+Prop", "Doc+Sec+Prop",
                                  "Doc+Prop"]))
    pairs = []
    for kind in shape.split("+"):
        m = draw(st.integers(1, 3 if "+" not in shape else 2))
        pool = KIND_ATTRS[kind] + (["value", "value"] if kind == "Prop" else [])
        attrs = draw(st.lists(st.sampled_from(pool), min_size=1, max_size=m, unique=True))
        for a in attrs:
            pairs.append([kind, a, draw(st.integers(0, 40)), draw(st.sampled_from(["hit", "hit", "hit", "miss"]))])
    if "+" in shape and draw(st.integers(0, 3)) == 0:
        # the same attribute asked of two kinds of object at once (name, definition, reference are
        # attributes of Sections and of Properties; repository of Documents and Sections)
        kinds = shape.split("+")[-2:]
        common = [a for a in KIND_ATTRS[kinds[0]] if a in KIND_ATTRS[kinds[1]] and a != "id"]
        if common:
            a = draw(st.sampled_from(common))
            pairs = [[k, a, draw(st.integers(0, 40)), "hit"] for k in kinds]
    mode = draw(st.sampled_from(["match", "match", "fuzzy"]))
    # the finder runs one query per combination: keep the number of pairs (fuzzy: attributes x terms) small
    pairs = pairs[:4] if mode == "match" else pairs[:3]
    return {"docs": docs, "pairs": pairs, "form": draw(st.sampled_from(["string", "dict"])),
            "reuse": draw(st.booleans()),
            # ask for the same value in two attributes of one kind of object (name and type, ...)
            "same": draw(st.integers(0, 2)) == 0,
            "mode": mode, "seed": draw(st.integers(0, 10 ** 6))}


# ------------------------------------------------------------------------------------
# model

def text_of(v):
    return None if v is None else str(v)


def attr_text(obj, kind, attr):
    if attr == "id":
        return obj.id
    if attr == "dtype":
        return text_of(obj.dtype)
    return text_of(getattr(obj, attr))


def node_matches(obj, kind, conds):
    for attr, val in conds:
        if attr == "value":
            have = [str(v) for v in obj.values]
            if not all(x in have for x in val):
                return False
        elif attr_text(obj, kind, attr) != val:
            return False
    return True


class Model(object):
    def __init__(self, docs):
        self.docs = docs
        self.secs = []      # (parent, sec)
        self.props = []     # (sec, prop)
        for d in docs:
            stack = [(d, s) for s in list.__iter__(d.sections)]
            while stack:
                par, s = stack.pop(0)
                self.secs.append((par, s))
                for p in list.__iter__(s.properties):
                    self.props.append((s, p))
                stack.extend((s, c) for c in list.__iter__(s.sections))

    def rows(self, combo):
        """-> dict kind -> set of ids that must be reported, or None when there is no hit."""
        by = {"Doc": [], "Sec": [], "Prop": []}
        for kind, attr, val in combo:
            by[kind].append((attr, val))
        D, Sx, P = by["Doc"], by["Sec"], by["Prop"]
        docs = [d for d in self.docs if node_matches(d, "Doc", D)]
        out = {}
        if Sx or (D and P and False):
            pass
        if Sx and P:
            rows = [(par, s, p) for (par, s) in self.secs if node_matches(s, "Sec", Sx)
                    for (s2, p) in self.props if s2 is s and node_matches(p, "Prop", P)]
            if D:
                rows = [r for r in rows if any(r[0] is d for d in docs)]
            if not rows:
                return None
            out["Sec"] = {r[1].id for r in rows}
            out["Prop"] = {r[2].id for r in rows}
            if D:
                out["Doc"] = {r[0].id for r in rows}
            return out
        if Sx:
            rows = [(par, s) for (par, s) in self.secs if node_matches(s, "Sec", Sx)]
            if D:
                rows = [r for r in rows if any(r[0] is d for d in docs)]
            if not rows:
                return None
            out["Sec"] = {r[1].id for r in rows}
            if D:
                out["Doc"] = {r[0].id for r in rows}
            return out
        if P:
            props = [p for (s, p) in self.props if node_matches(p, "Prop", P)]
            if not props or (D and not docs):
                return None
            out["Prop"] = {p.id for p in props}
            if D:
                out["Doc"] = {d.id for d in docs}
            return out
        if not docs:
            return None
        return {"Doc": {d.id for d in docs}}


# ------------------------------------------------------------------------------------
# parsing the finder output

_UNESC = {"n": "\n", "r": "\r", "t": "\t", '"': '"', "'": "'", "\\": "\\", "b": "\b", "f": "\f"}


def sparql_unescape(text):
    """The value a quoted SPARQL string stands for (SPARQL 1.1, 19.7 ECHAR)."""
    return re.sub(r"\\(.)", lambda m: _UNESC.get(m.group(1), m.group(0)), text)


def parse_query(text):
    """SPARQL text of one block -> frozenset of (kind, attr, value-or-tuple)."""
    combo = []
    values = []
    for line in text.splitlines():
        line = line.strip()
        m = re.search(r"\?([dsp])\s+odml:(has\w+)\s", line)
        q = [sparql_unescape(x) for x in re.findall(r'"((?:[^"\\]|\\.)*)"', line)]
        if m and m.group(2) in PRED[VAR_KIND[m.group(1)]] and q:
            combo.append((VAR_KIND[m.group(1)], PRED[VAR_KIND[m.group(1)]][m.group(2)], q[0]))
            continue
        mid = re.search(r"\?([dsp])\b.*[<\"]%s([0-9a-fA-F-]{36})[>\"]" % re.escape(NS), line)
        if mid and "hasSection" not in line and "hasProperty" not in line:
            combo.append((VAR_KIND[mid.group(1)], "id", mid.group(2)))
            continue
        if "?v" in line and q and "hasValue" not in line.split('"')[0][-12:]:
            values.append(q[0])
    if values:
        combo.append(("Prop", "value", tuple(values)))
    return frozenset(combo)


def parse_output(text):
    """-> list of (query text, [row dicts])"""
    blocks = []
    parts = text.split("SELECT * WHERE {")
    for part in parts[1:]:
        q, _, rest = part.partition("}\n")
        rows = []
        cur = {}
        for line in rest.splitlines():
            if not line.strip():
                continue
            m = re.match(r"^(Document|Section|Property|Bag URI|Value): (.*)$", line)
            if not m:
                continue
            label, val = m.group(1), m.group(2)
            if label in cur or (cur and label == "Document"):
                rows.append(cur)
                cur = {}
            cur[label] = val
        if cur:
            rows.append(cur)
        blocks.append((q, rows))
    return blocks


def short(uri):
    return uri.replace(NS, "")


# ------------------------------------------------------------------------------------

def harvest(model, kind, attr):
    vals = []
    objs = {"Doc": model.docs, "Sec": [s for _, s in model.secs], "Prop": [p for _, p in model.props]}[kind]
    for o in objs:
        if attr == "value":
            for v in o.values:
                if ok_value(str(v)):
                    vals.append(str(v))
        else:
            t = attr_text(o, kind, attr)
            if t is not None and ok_value(t):
                vals.append(t)
    return sorted(set(vals))


def body(case):
    docs = [build.build_doc(S.fill_ids(copy.deepcopy(d), case["seed"] * 5 + i))
            for i, d in enumerate(case["docs"])]
    graph = RDFWriter(docs, rdf_subclassing=False).convert_to_rdf()
    model = Model(docs)
    pairs = []
    for kind, attr, pick, want in case["pairs"]:
        pool = harvest(model, kind, attr)
        if want == "hit" and pool:
            val = pool[pick % len(pool)]
        else:
            val = ["nohit", "zzz", "12345", "1900-01-01"][pick % 4]
            if attr == "id":
                val = "ffffffff-0000-4000-8000-%012d" % pick
        if attr == "value":
            vals = [val]
            if want == "hit" and len(pool) > 1 and pick % 2:
                # a second value of the same Property
                for (s, p) in model.props:
                    have = [str(v) for v in p.values if ok_value(str(v))]
                    if val in have and len(set(have)) > 1:
                        vals = sorted(set(have))[:2]
                        if val not in vals:
                            vals = [val]
                        break
            pairs.append((kind, attr, tuple(vals)))
        else:
            pairs.append((kind, attr, val))
    if case.get("same"):
        for j in range(1, len(pairs)):
            for i in range(j):
                if pairs[i][0] == pairs[j][0] and "value" not in (pairs[i][1], pairs[j][1]) and \
                        "id" not in (pairs[i][1], pairs[j][1]):
                    pool = harvest(model, pairs[j][0], pairs[j][1])
                    both = [v for v in harvest(model, pairs[i][0], pairs[i][1]) if v in pool]
                    if both:
                        v = both[case["pairs"][j][2] % len(both)]
                        pairs[i] = (pairs[i][0], pairs[i][1], v)
                        pairs[j] = (pairs[j][0], pairs[j][1], v)
                    break
    mode = case["mode"]
    fails = []
    classes = ["mode:" + mode, "same_value:%s" % (len({(p[0], p[2]) for p in pairs if p[1] != "value"}) <
                                                 len([p for p in pairs if p[1] != "value"])), "form:" + case["form"], "shape:" + "+".join(sorted({p[0] for p in pairs}))]
    classes += ["attr:%s.%s" % (p[0], p[1]) for p in pairs]
    loc = dict(mode=mode, form=case["form"], kinds=sorted({p[0] for p in pairs}),
               attrs=sorted({"%s.%s" % (p[0], p[1]) for p in pairs}))
    # build the call
    if mode == "fuzzy":
        fz_pairs = [p for p in pairs if p[1] != "value"]
        if not fz_pairs:
            return False, classes + ["fuzzy:skipped"], []
        terms = sorted({p[2] for p in fz_pairs})
        find = {}
        for kind, attr, _ in fz_pairs:
            find.setdefault(kind, [])
            if attr not in find[kind]:
                find[kind].append(attr)
        all_pairs = [(k, a, t) for k in find for a in find[k] for t in terms]
        if case["form"] == "string":
            names = {"Doc": "doc", "Sec": "sec", "Prop": "prop"}
            q_str = "FIND " + " ".join("%s(%s)" % (names[k], ", ".join(find[k])) for k in find) + \
                " HAVING " + ", ".join(terms)
            kw = {"q_str": q_str}
        else:
            q = {k: list(v) for k, v in find.items()}
            q["Search"] = list(terms)
            kw = {"q_params": q}
    else:
        all_pairs = list(pairs)
        if case["form"] == "string":
            names = {"Doc": "doc", "Sec": "sec", "Prop": "prop"}
            chunks = []
            for k in ("Doc", "Sec", "Prop"):
                mine = [p for p in pairs if p[0] == k]
                if mine:
                    inner = ", ".join("%s:%s" % (a, v) if a != "value" else "value:[%s]" % ", ".join(v)
                                      for _, a, v in mine)
                    chunks.append("%s(%s)" % (names[k], inner))
            kw = {"q_str": " ".join(chunks)}
        else:
            q = {}
            for k, a, v in pairs:
                q.setdefault(k, []).append((a, list(v) if a == "value" else v))
            kw = {"q_params": q}
    finder = FuzzyFinder()
    if case.get("reuse"):
        # a finder that has already answered another search answers like a fresh one
        classes.append("finder:reused")
        # (with values that do have hits: what such a search leaves behind must not show up later)
        d0 = case["docs"][0]
        prior = []
        if d0.get("author") and ok_value(d0["author"]):
            prior.append("doc(author:%s)" % d0["author"])
        secs0 = list(S.iter_secs(d0))
        if secs0 and ok_value(secs0[0]["name"]):
            prior.append("sec(name:%s)" % secs0[0]["name"])
        props0 = list(S.iter_props(d0))
        if props0 and ok_value(props0[0]["name"]):
            prior.append("prop(name:%s)" % props0[0]["name"])
        prior = " ".join(prior) or "doc(version:0)"
        try:
            finder.find(mode="match", graph=graph, q_str=prior)
            finder.find(mode="fuzzy", graph=graph, q_str="FIND sec(name) prop(name) HAVING nothing-at-all")
        except Exception:
            pass
    try:
        out = finder.find(mode=mode, graph=graph, **kw)
    except Exception as exc:
        fails.append(failure("query.raised", "find(%s, %r) raised %s: %s" % (mode, kw, type(exc).__name__,
                                                                             str(exc)[:150]), **loc))
        return len(pairs) >= 2, classes, fails
    # also: building a query alone never fails
    try:
        if mode == "match" and case["form"] == "string":
            QueryCreator().get_query(kw["q_str"], QueryParser())
    except Exception as exc:
        fails.append(failure("query.raised", "get_query raised %s: %s" % (type(exc).__name__, str(exc)[:100]),
                             **loc))
    blocks = parse_output(out)
    # expected combinations
    expected = {}
    for r in range(1, len(all_pairs) + 1):
        for combo in itertools.combinations(all_pairs, r):
            keys = [(k, a) for k, a, _ in combo]
            if len(set(keys)) != len(keys):
                continue
            res = model.rows(combo)
            if res is not None:
                expected[frozenset(combo)] = res
    seen = {}
    sizes = []
    for qtext, rows in blocks:
        combo = parse_query(qtext)
        sizes.append(len(combo))
        if combo in seen:
            fails.append(failure("query.duplicate_block", "the combination %r is reported twice"
                                 % sorted(combo), **loc))
        seen[combo] = rows
        kinds = {k for k, _, _ in combo}
        exp = expected.get(combo)
        if exp is None:
            fails.append(failure("query.unsound_block", "a block is reported for %r although no node carries "
                                 "these values (rows %r)" % (sorted(combo), rows[:2]), block_kinds=sorted(kinds),
                                 **loc))
            continue
        label = {"Doc": "Document", "Sec": "Section", "Prop": "Property"}
        doc_prop_only = kinds == {"Doc", "Prop"}
        for k in kinds:
            got = {short(r.get(label[k], "")) for r in rows}
            if got != exp[k]:
                fails.append(failure("query.wrong_nodes", "combination %r: reported %s nodes %r, matching nodes "
                                     "%r" % (sorted(combo), k, sorted(got), sorted(exp[k])),
                                     block_kinds=sorted(kinds), missing=bool(exp[k] - got),
                                     extra=bool(got - exp[k]), **loc))
    for combo, exp in expected.items():
        if combo not in seen:
            cattrs = sorted({"%s.%s" % (k, a) for k, a, _ in combo})
            names = [a for _, a, _ in combo]
            fails.append(failure("query.missing_block", "the combination %r has hits %r but is not reported"
                                 % (sorted(combo), {k: sorted(v)[:2] for k, v in exp.items()}),
                                 combo_attrs=cattrs, same_attr_name_across_kinds=len(set(names)) != len(names),
                                 **loc))
    if sizes != sorted(sizes, reverse=True):
        fails.append(failure("query.order", "blocks are not ordered most specific first: sizes %r" % sizes, **loc))
    nhit = len(expected)
    total = sum(1 for r in range(1, len(all_pairs) + 1) for c in itertools.combinations(all_pairs, r)
                if len({(k, a) for k, a, _ in c}) == len(c))
    nt = len(all_pairs) >= 2 and 0 < nhit < total
    return nt, classes, fails[:8]


def plan(tier):
    if tier == "quick":
        return [{"name": "query%d" % i, "n": 70} for i in range(16)]
    return [{"name": "query%d" % i, "n": 1200} for i in range(16)]


def run(shard, seed, ctx):
    hyp.drive(ctx, "query", cases(), body, shard["n"], seed, shrink_budget=40)


def replay(kind, case):
    return body(case)[2]
