"""C16 - readers are total: a document, or a ParserException - never anything else."""
import io
import json
import os
import signal
import traceback
import xml.etree.ElementTree as PET

import yaml
from hypothesis import strategies as st

import odml
from odml.tools.dict_parser import DictReader
from odml.tools.odmlparser import ODMLReader
from odml.tools.parser_utils import InvalidVersionException, ParserException
from odml.tools.xmlparser import XMLReader, XMLWriter

from .. import build, env, hyp, inv, snap, spec as S
from ..core import failure

PROPERTY = "C16"
LEVEL = "exploration"
RULE = ("four Hypothesis generators, reported separately: (a) arbitrary text; (b) grammar-generated XML over "
        "the odML element names with injected faults (wrong nesting, repeated / missing / unknown / "
        "differently-cased elements, XML attributes, empty text, unparsable values, dates, ids and "
        "cardinalities, duplicate sibling names, comments, processing instructions, CDATA, entities, "
        "namespaces, other versions, XML declarations); (c) structural mutations of valid files written by "
        "the library; (d) odML-shaped dictionaries with wrong keys / scalar types / dates / ids / "
        "cardinalities / duplicate names / versions / child lists that are empty, scalar or hold non-mapping "
        "entries for DictReader and the JSON/YAML string and file entry "
        "points; x strict/lenient x string/file. The thorough tier adds a coverage-guided atheris (libFuzzer) "
        "campaign on the XML reader (raw bytes with empty and seeded corpus, and bytes driving generator (b)) "
        "and on the dictionary reader (bytes -> JSON -> odML-shaped dictionaries, seeded corpus) with the same "
        "oracle. Oracle: outcome is a Document or ParserException "
        "(InvalidVersionException for another version); lenient mode never raises on well-formed XML with an "
        "odML root of the current version and keeps every valid top-level Section; returned documents satisfy "
        "the C03/C04 invariants; a 30 s watchdog turns a hang into a failure. Non-trivial = input accepted by "
        "the syntax layer that contains >= 1 injected fault")
ASSUMPTIONS = ["'shaped like an odML dictionary' = mapping root with a 'Document' entry; anything may be wrong below "
               "it (a 'Document' that is no mapping must be refused with ParserException in both modes); leaf "
               "content is a scalar, a list of scalars or a flat mapping",
               "the watchdog (30 s for inputs of a few KB) is the only wall-clock signal used"]

TIMEOUT = 30


class Hang(Exception):
    pass


def _alarm(signum, frame):
    raise Hang()


def guarded(fn):
    """Run fn with the watchdog. Returns (result, exception)."""
    old = signal.signal(signal.SIGALRM, _alarm)
    signal.alarm(TIMEOUT)
    try:
        return fn(), None
    except Hang as exc:
        return None, exc
    except BaseException as exc:  # noqa - the outcome is what we classify
        return None, exc
    finally:
        signal.alarm(0)
        signal.signal(signal.SIGALRM, old)


def innermost_odml_frame(exc):
    tb = traceback.extract_tb(exc.__traceback__)
    for fr in reversed(tb):
        if "/odml/" in fr.filename:
            return "%s:%s" % (os.path.basename(fr.filename), fr.name)
    return "?"


def judge(result, exc, where, fails, lenient_must_succeed=False, version_other=False, **loc):
    """Classify one reader outcome."""
    if isinstance(exc, Hang):
        fails.append(failure("reader.hang", "%s did not return within %d s" % (where, TIMEOUT), **loc))
        return None
    if exc is not None:
        if isinstance(exc, ParserException):
            if version_other and not isinstance(exc, InvalidVersionException):
                pass  # other problems may be reported first
            if lenient_must_succeed:
                fails.append(failure("reader.lenient_raised", "%s: lenient mode raised ParserException(%s) on "
                                     "well-formed odML XML of the current version" % (where, str(exc)[:100]),
                                     frame=innermost_odml_frame(exc), **loc))
            return None
        fails.append(failure("reader.leaked_exception", "%s leaked %s(%s) from %s"
                             % (where, type(exc).__name__, str(exc)[:100], innermost_odml_frame(exc)),
                             exc=type(exc).__name__, frame=innermost_odml_frame(exc), **loc))
        return None
    doc = result
    if not isinstance(doc, odml.doc.BaseDocument):
        fails.append(failure("reader.wrong_result", "%s returned %r instead of a Document" % (where, type(doc)),
                             **loc))
        return None
    objs = snap.reachable([doc])
    t = inv.tree_failures(objs)
    n = inv.name_failures(objs) if not t else []
    for f in (t + n)[:3]:
        fails.append(failure("reader.bad_document", "%s returned a document violating %s: %s"
                             % (where, f["clause"], f["detail"]), inner=f["clause"], **loc))
    return doc


# ------------------------------------------------------------------------------------
# (a) arbitrary text

ARBITRARY = st.one_of(
    st.text(max_size=60),
    st.text(alphabet="<>/odMLsectionprywa =\"'1.!?-[]&;\n", max_size=80),
    st.sampled_from(["", " ", "<", "<odML", "<odML/>", "<odML version='1.1'/>", "<odML version=\"1.1\">",
                     "<?xml version='1.0'?>", "<?xml version=\"1.0\" encoding=\"UTF-8\"?><odML version=\"1.1\"/>",
                     "<a><b></a></b>", "\x00", "<odML version='1.1'>\x00</odML>", "<!DOCTYPE odML><odML version='1.1'/>",
                     "<odML version='1.1'><!-- c --></odML>", "<odML version='1.1'><?pi x?></odML>",
                     "<odML xmlns='urn:x' version='1.1'/>", "﻿<odML version='1.1'/>",
                     "<odML version='1.1'>&undefined;</odML>", "{\"Document\": {}}", "Document:\n  a: b\n",
                     "<?xml version=\"1.0\" encoding=\"UTF-8\"><odML version=\"1.1\"/>",
                     "<?xml version=\"1.0\" encoding=\"UTF->8\"?><odML version=\"1.1\"/>",
                     "<?xml version=\"1.0\" encoding=\"UTF-8\"", "<?xml encoding='x'",
                     "  <?xml version=\"1.0\" encoding=\"UTF-8\"?>\n<odML version=\"1.1\"/>",
                     "<?xml version=\"1.0\" encoding=\"ISO-8859-1\"?><odML version=\"1.1\"><author>\u00e4</author></odML>",
                     "<odML version='1.1'><section><name>a</name><type>t</type>"
                     "<sec_cardinality>(\u00b2,3)</sec_cardinality></section></odML>",
                     "<odML version='1.1'><author>\ud800</author></odML>", "\udfff",
                     "<?xml version=\"1.0\" encoding=\"UTF-8\"?><odML version=\"1.1\"><author>a\udc80b</author></odML>",
                     "<odML version='1.1'><section><name>s</name><type>t</type><property><name>p</name>"
                     "<value>[a&#13;b]</value></property></section></odML>",
                     "<odML version='1.1'><section><name>s</name><type>t</type><property><name>p</name>"
                     "<value>[a\"b,c]</value></property></section></odML>"]),
)


def arbitrary_body(case):
    text, lenient, via_file = case
    fails = []
    loc = dict(gen="arbitrary", lenient=lenient, via_file=via_file)
    d = None
    if via_file:
        d = env.fresh_dir("c16")
        path = os.path.join(d, "in.xml")
        try:
            with open(path, "w", encoding="utf-8", newline="") as fh:
                fh.write(text)
        except (UnicodeEncodeError, ValueError):
            env.rm(d)
            return False, ["arbitrary:unwritable"], []
        res, exc = guarded(lambda: XMLReader(ignore_errors=lenient, show_warnings=False).from_file(path))
        env.rm(d)
    else:
        res, exc = guarded(lambda: XMLReader(ignore_errors=lenient, show_warnings=False).from_string(text))
    judge(res, exc, "XMLReader(%s).%s(%r)" % ("lenient" if lenient else "strict",
                                              "from_file" if via_file else "from_string", text[:60]),
          fails, **loc)
    return res is not None, ["arbitrary:" + ("document" if res is not None else "refused")], fails


# ------------------------------------------------------------------------------------
# (b) grammar with faults

_TXT = st.sampled_from(["a", "b", "name one", "", " ", "x,y", "[1,2]", "1", "abc", "2020-01-01", "ä", "&amp;",
                        "<![CDATA[c<d]]>", "&#10;", "t", "n.s.",
                        # text that means something to the string formatting of messages
                        "%", "90% of all", "rate %s %d", "{0} {x}", "%(name)s", "\\"])
_IDS = st.sampled_from(["1a2b3c4d-0000-4000-8000-00000000000a", "garbage", "", "1A2B3C4D-0000-4000-8000-00000000000A"])
_CARD = st.sampled_from(["(1, 2)", "(None, 3)", "(2, None)", "(2, 2)", "(3, 1)", "abc", "()", "(1,2,3)", "(-1, 2)",
                         "1", "(a, b)", ""])
_DTYPES = st.sampled_from(["string", "int", "float", "date", "datetime", "time", "boolean", "2-tuple", "text",
                           "Int", "foo", "", "0-tuple", "url", "person"])
_VALUES = st.sampled_from(["1", "[1,2]", "abc", "[a,b", "1.5", "2020-01-01", "2020-13-45", "25:00:00", "true",
                           "(1;2)", "[(1;2),(3;4)]", "(1;2;3)", "", "[]", "[,]", "\"q\"", "[\"a,b\",c]",
                           "2020-01-01 10:00:00", "99999999999999999999", "1e400", "nan"])


def el(tag, body, attrs=""):
    return "<%s%s>%s</%s>" % (tag, attrs, body, tag)


@st.composite
def xml_property(draw, faults):
    parts = []
    n_names = draw(st.sampled_from([1, 1, 1, 1, 0, 2]))
    if n_names != 1:
        faults.append("prop_name_count")
    for _ in range(n_names):
        parts.append(el(draw(st.sampled_from(["name", "name", "name", "Name", "NAME"])), draw(_TXT)))
    if draw(st.booleans()):
        parts.append(el("type", draw(_DTYPES)))
    if draw(st.booleans()):
        parts.append(el(draw(st.sampled_from(["value", "value", "Value", "values"])), draw(_VALUES)))
    for tag in draw(st.lists(st.sampled_from(["unit", "uncertainty", "definition", "dependency", "dependencyvalue",
                                              "dependency_value", "reference", "value_origin", "id",
                                              "val_cardinality", "unknown_el", "section", "property", "value",
                                              "xsl:stylesheet"]), max_size=4)):
        if tag == "id":
            parts.append(el(tag, draw(_IDS)))
        elif tag == "val_cardinality":
            parts.append(el(tag, draw(_CARD)))
        elif tag == "section":
            faults.append("section_in_property")
            parts.append(el("section", el("name", "inner") + el("type", "t")))
        elif tag == "property":
            faults.append("property_in_property")
            parts.append(el("property", el("name", "inner")))
        elif tag == "xsl:stylesheet":
            faults.append("namespace")
            parts.append('<x:y xmlns:x="urn:x">z</x:y>')
        else:
            if tag in ("unknown_el", "dependency_value"):
                faults.append("unknown_element")
            parts.append(el(tag, draw(_TXT)))
    if draw(st.integers(0, 9)) == 0:
        faults.append("attribute")
        return "<property foo=\"bar\">%s</property>" % "".join(parts)
    misc = draw(st.sampled_from(["", "", "", "<!-- c -->", "<?pi data?>", "stray text"]))
    if misc.startswith("<?"):
        faults.append("processing_instruction")
    return "<property>%s%s</property>" % (misc, "".join(parts))


@st.composite
def xml_section(draw, depth, faults, name=None):
    parts = []
    if name is None:
        n_names = draw(st.sampled_from([1, 1, 1, 1, 0, 2]))
        if n_names != 1:
            faults.append("sec_name_count")
        for _ in range(n_names):
            parts.append(el("name", draw(st.sampled_from(["a", "b", "c", "a", "", " "]))))
    else:
        parts.append(el("name", name))
    ntype = draw(st.sampled_from([1, 1, 1, 0]))
    if ntype == 0 and name is None:
        faults.append("missing_type")
    if ntype or name is not None:
        parts.append(el(draw(st.sampled_from(["type", "type", "Type"])) if name is None else "type", draw(_TXT) or "t"))
    for tag in draw(st.lists(st.sampled_from(["definition", "reference", "id", "sec_cardinality", "prop_cardinality",
                                              "repository", "link", "unknown_el", "value", "author", "property",
                                              "property", "section", "section"]), max_size=5)):
        if name is not None and tag in ("unknown_el", "value", "author"):
            continue
        if tag == "id":
            parts.append(el(tag, draw(_IDS)))
        elif tag.endswith("cardinality"):
            parts.append(el(tag, draw(_CARD)))
        elif tag == "repository":
            parts.append(el(tag, "file:///nonexistent/terms.xml"))
        elif tag == "link":
            parts.append(el(tag, draw(st.sampled_from(["/a/b", "../x", ""]))))
        elif tag == "property":
            if name is None:
                parts.append(draw(xml_property(faults)))
            else:
                parts.append(el("property", el("name", "p%d" % len(parts)) + el("value", "1")))
        elif tag == "section":
            if depth > 0 and name is None:
                parts.append(draw(xml_section(depth - 1, faults)))
        else:
            if tag in ("unknown_el", "value", "author"):
                faults.append("unknown_element")
            parts.append(el(tag, draw(_TXT)))
    if name is None:
        order = draw(st.permutations(parts))
    else:
        order = parts
    misc = ""
    if name is None:
        misc = draw(st.sampled_from(["", "", "", "<!-- c -->", "<?pi data?>", "text"]))
        if misc.startswith("<?"):
            faults.append("processing_instruction")
    return "<section>%s%s</section>" % (misc, "".join(order))


@st.composite
def grammar_case(draw):
    faults = []
    root = draw(st.sampled_from(["odML"] * 8 + ["odml", "ODML", "foo"]))
    version = draw(st.sampled_from(['version="1.1"'] * 8 + ['version="1"', 'version="1.0"', 'version="2"', "",
                                                            'Version="1.1"', 'version="1.1" extra="x"']))
    n = draw(st.integers(0, 4))
    children = []
    markers = []
    for i in range(n):
        if draw(st.booleans()):
            nm = "keep-%d" % i
            children.append(draw(xml_section(0, [], name=nm)))
            markers.append(nm)
        else:
            children.append(draw(xml_section(2, faults)))
    for tag in draw(st.lists(st.sampled_from(["author", "version", "date", "repository", "id", "property",
                                              "unknown_el", "date"]), max_size=3)):
        if tag == "date":
            children.append(el("date", draw(st.sampled_from(["2020-01-01", "not a date", "2020-13-01", ""]))))
        elif tag == "property":
            faults.append("property_in_root")
            children.append(el("property", el("name", "x")))
        elif tag == "id":
            children.append(el("id", draw(_IDS)))
        elif tag == "repository":
            children.append(el("repository", "file:///nonexistent/t.xml"))
        else:
            if tag == "unknown_el":
                faults.append("unknown_element")
            children.append(el(tag, draw(_TXT)))
    children = draw(st.permutations(children))
    head = draw(st.sampled_from(["", "", '<?xml version="1.0"?>\n', '<?xml version="1.0" encoding="UTF-8"?>\n',
                                 '<?xml-stylesheet type="text/xsl" href="odml.xsl"?>\n',
                                 '<!DOCTYPE odML [ <!ENTITY e "ent"> ]>\n']))
    text = "%s<%s %s>%s</%s>" % (head, root, version, "".join(children), root)
    return {"text": text, "root": root, "version": version, "markers": markers, "faults": sorted(set(faults)),
            "lenient": draw(st.booleans()), "entry": draw(st.sampled_from(["string", "file", "fileobj", "odmlreader", "load"])),
            "file_encoding": draw(st.sampled_from(["utf-8", "utf-8", "iso-8859-1", "utf-16"]))}


def read_xml(text, lenient, entry, d, file_encoding="utf-8"):
    if entry == "string":
        return XMLReader(ignore_errors=lenient, show_warnings=False).from_string(text)
    path = os.path.join(d, "in.xml")
    if file_encoding != "utf-8" and not text.startswith("<?xml") and not text.startswith("<!DOCTYPE"):
        # a file in another encoding, correctly declared, with a character outside ASCII
        text = '<?xml version="1.0" encoding="%s"?>\n' % file_encoding.upper() + \
            text.replace("</type>", "\u00e4</type>", 1)
        with open(path, "wb") as fh:
            fh.write(text.encode(file_encoding))
        file_encoding = None
    if file_encoding is not None:
        with open(path, "w", encoding="utf-8", newline="") as fh:
            fh.write(text)
    if entry == "file":
        return XMLReader(ignore_errors=lenient, show_warnings=False).from_file(path)
    if entry == "fileobj":
        with open(path, "rb") as fh:
            return XMLReader(ignore_errors=lenient, show_warnings=False).from_file(fh)
    if entry == "odmlreader":
        return ODMLReader("XML", show_warnings=False).from_file(path)
    return odml.load(path, "XML", show_warnings=False)


def wellformed_current(text):
    """Independent syntax layer: stdlib ElementTree; root odML with version 1.1."""
    try:
        root = PET.fromstring(text.encode("utf-8"))
    except Exception:
        return None
    return root.tag == "odML" and root.attrib.get("version") == "1.1"


def grammar_body(case):
    text = case["text"]
    entry = case["entry"]
    lenient = case["lenient"] or entry in ("odmlreader", "load")
    fails = []
    d = env.fresh_dir("c16")
    try:
        wf = wellformed_current(text)
        str_with_decl = entry == "string" and "encoding=" in text.split("\n")[0]
        res, exc = guarded(lambda: read_xml(text, lenient, entry, d, case.get("file_encoding", "utf-8")))
        loc = dict(gen="grammar", lenient=lenient, entry=entry, faults=case["faults"],
                   file_encoding=case.get("file_encoding", "utf-8"),
                   str_with_encoding_declaration=str_with_decl)
        doc = judge(res, exc, "XML %s %s" % ("lenient" if lenient else "strict", entry), fails,
                    lenient_must_succeed=bool(lenient and wf), **loc)
        if doc is not None and lenient and wf:
            have = {s.name for s in list.__iter__(doc.sections)}
            for m in case["markers"]:
                if m not in have:
                    fails.append(failure("reader.lenient_lost_valid_part", "lenient mode dropped the valid "
                                         "top-level Section %r (kept %r)" % (m, sorted(have)), **loc))
                    break
        classes = ["grammar:" + ("wellformed" if wf else "not_current_or_malformed"),
                   "grammar:" + ("document" if res is not None else "refused")] + \
            ["fault:" + f for f in case["faults"]]
        return bool(wf is not None and case["faults"]), classes, fails
    finally:
        env.rm(d)


# ------------------------------------------------------------------------------------
# (c) structural mutations of valid files

MUTATIONS = ["delete", "duplicate", "swap", "reparent", "case", "corrupt_text", "rename_tag", "dup_name"]


def mutate(text, ops):
    root = PET.fromstring(text.encode("utf-8"))
    applied = []
    for op, a, b in ops:
        nodes = [n for n in root.iter()]
        parent_of = {c: p for p in root.iter() for c in p}
        if len(nodes) < 2:
            break
        node = nodes[1 + a % (len(nodes) - 1)]
        par = parent_of.get(node)
        if par is None:
            continue
        if op == "delete":
            par.remove(node)
        elif op == "duplicate":
            import copy
            par.append(copy.deepcopy(node))
        elif op == "swap":
            kids = list(par)
            if len(kids) >= 2:
                i, j = a % len(kids), b % len(kids)
                par[i], par[j] = copy_el(kids[j]), copy_el(kids[i])
        elif op == "reparent":
            tgt = nodes[b % len(nodes)]
            if tgt is not node and tgt not in list(node.iter()):
                par.remove(node)
                tgt.append(node)
        elif op == "case":
            node.tag = node.tag.upper() if b % 2 else node.tag.capitalize()
        elif op == "corrupt_text":
            node.text = ["", "][", "\"", "not-a-value", "(1,", "2020-99-99", " "][b % 7]
        elif op == "rename_tag":
            node.tag = ["value", "section", "property", "name", "bogus", "odML"][b % 6]
        elif op == "dup_name":
            names = [n for n in root.iter("name")]
            if len(names) >= 2:
                names[a % len(names)].text = names[b % len(names)].text
        applied.append(op)
    return PET.tostring(root, encoding="unicode"), applied


def copy_el(e):
    import copy
    return copy.deepcopy(e)


def mutation_cases():
    return st.fixed_dictionaries({
        "doc": S.doc_spec(max_depth=2, max_secs=3, max_props=3, text_classes=["plain", "comma", "bracket"]),
        "ops": st.lists(st.tuples(st.sampled_from(MUTATIONS), st.integers(0, 60), st.integers(0, 60)).map(list),
                        min_size=1, max_size=4),
        "lenient": st.booleans(),
        "entry": st.sampled_from(["string", "file", "fileobj", "load"]),
    })


def mutation_body(case):
    doc = build.build_doc(case["doc"])
    text = str(XMLWriter(doc))
    mutated, applied = mutate(text, [tuple(o) for o in case["ops"]])
    entry = case["entry"]
    lenient = case["lenient"] or entry == "load"
    fails = []
    d = env.fresh_dir("c16")
    try:
        wf = wellformed_current(mutated)
        res, exc = guarded(lambda: read_xml(mutated, lenient, entry, d))
        judge(res, exc, "mutated XML %s %s" % ("lenient" if lenient else "strict", entry), fails,
              lenient_must_succeed=bool(lenient and wf), gen="mutation", lenient=lenient, entry=entry,
              ops=sorted(set(applied)))
        return bool(applied), ["mutation:" + a for a in set(applied)] + \
            ["mutation:" + ("document" if res is not None else "refused")], fails
    finally:
        env.rm(d)


# ------------------------------------------------------------------------------------
# (d) odML-shaped dictionaries

_SCALAR = st.one_of(st.none(), st.booleans(), st.integers(-3, 3), st.floats(allow_nan=False, allow_infinity=False),
                    st.sampled_from(["a", "b", "", " ", "n.s.", "2020-01-01", "not a date", "1", "[1,2]",
                                     "1a2b3c4d-0000-4000-8000-00000000000a", "garbage"]),
                    st.lists(st.integers(0, 3), max_size=3), st.just({"k": "v"}))
_DCARD = st.one_of(st.none(), st.sampled_from([[1, 2], [None, 3], [2, None], [2, 2], [3, 1], [1], [1, 2, 3], "abc",
                                               5, [-1, 2], ["a", "b"], {}, [None, None], [1.5, 2]]))
_GOODNAME = st.sampled_from(["a", "b", "c", "a"])


@st.composite
def dict_property(draw, faults):
    d = {}
    d["name"] = draw(st.one_of(_GOODNAME, _GOODNAME, _GOODNAME, _SCALAR))
    if not isinstance(d["name"], str) or not d["name"].strip():
        faults.append("prop_name_not_text")
    if draw(st.booleans()):
        d["type"] = draw(st.one_of(_DTYPES, _SCALAR))
    if draw(st.booleans()):
        d["value"] = draw(st.one_of(st.lists(_SCALAR, max_size=3), _SCALAR, _VALUES))
    for k in draw(st.lists(st.sampled_from(["unit", "uncertainty", "definition", "dependency", "dependencyvalue",
                                            "reference", "value_origin", "id", "val_cardinality", "bogus_key",
                                            "values", "dtype", "oid", "sections"]), max_size=4)):
        if k == "val_cardinality":
            d[k] = draw(_DCARD)
        else:
            if k == "bogus_key":
                faults.append("unknown_key")
            d[k] = draw(_SCALAR)
    return d


@st.composite
def _odd_children(draw, entries, faults):
    """A child list as a hand-written JSON/YAML file may have it: mostly a list of mappings,
    sometimes empty content (None), a scalar, a mapping, or a list with a non-mapping entry."""
    kids = draw(entries)
    roll = draw(st.integers(0, 11))
    if roll == 0:
        faults.append("children_not_list")
        return draw(st.sampled_from([None, 5, "ab", {"name": "a"}, True, 1.5]))
    if roll == 1:
        faults.append("entry_not_mapping")
        kids = list(kids)
        kids.insert(draw(st.integers(0, len(kids))), draw(st.sampled_from([None, 5, "x", [1], [], True])))
    return kids


@st.composite
def dict_section(draw, depth, faults, name=None):
    d = {}
    if name is not None:
        d["name"] = name
        d["type"] = "t"
        return d
    d["name"] = draw(st.one_of(_GOODNAME, _GOODNAME, _GOODNAME, _SCALAR))
    if not isinstance(d["name"], str) or not d["name"].strip():
        faults.append("sec_name_not_text")
    if draw(st.integers(0, 4)):
        d["type"] = draw(st.one_of(st.sampled_from(["t", "u", "n.s."]), _SCALAR))
    for k in draw(st.lists(st.sampled_from(["definition", "reference", "id", "sec_cardinality", "prop_cardinality",
                                            "link", "bogus_key", "properties", "sections", "oid", "property"]),
                           max_size=5)):
        if k.endswith("cardinality"):
            d[k] = draw(_DCARD)
        elif k == "properties":
            d[k] = draw(_odd_children(st.lists(dict_property(faults), max_size=3), faults))
        elif k == "sections":
            d[k] = draw(_odd_children(st.lists(dict_section(depth - 1, faults), max_size=3), faults)) \
                if depth > 0 else []
        else:
            if k in ("bogus_key", "property"):
                faults.append("unknown_key")
            d[k] = draw(_SCALAR)
    return d


@st.composite
def dict_case(draw):
    faults = []
    docd = {}
    for k in draw(st.lists(st.sampled_from(["author", "version", "date", "repository", "id", "bogus_key", "oid"]),
                           max_size=4)):
        if k == "date":
            docd[k] = draw(st.one_of(st.sampled_from(["2020-01-01", "not a date", "", "2020-13-01"]), _SCALAR))
        elif k == "repository":
            docd[k] = draw(st.sampled_from([None, "file:///nonexistent/t.xml", 5]))
        else:
            if k == "bogus_key":
                faults.append("unknown_key")
            docd[k] = draw(_SCALAR)
    n = draw(st.integers(0, 4))
    secs = []
    markers = []
    for i in range(n):
        if draw(st.booleans()):
            secs.append(draw(dict_section(0, [], name="keep-%d" % i)))
            markers.append("keep-%d" % i)
        else:
            secs.append(draw(dict_section(2, faults)))
    docd["sections"] = secs
    roll = draw(st.integers(0, 24))
    if roll == 0:
        faults.append("children_not_list")
        docd["sections"] = draw(st.sampled_from([None, 5, "ab", {"name": "a"}]))
        markers = []
    elif roll == 1:
        faults.append("entry_not_mapping")
        secs.insert(draw(st.integers(0, len(secs))), draw(st.sampled_from([None, 5, "x", [1]])))
    elif roll == 2:
        faults.append("document_not_mapping")
        docd = draw(st.sampled_from([None, [], "abc", 5, [docd]]))
        markers = []
    version = draw(st.sampled_from(["1.1"] * 8 + ["1", "1.0", 1.1, None, "2"]))
    root = {"Document": docd, "odml-version": version}
    if draw(st.integers(0, 15)) == 0:
        root.pop(draw(st.sampled_from(["Document", "odml-version"])))
    return {"data": root, "markers": markers, "faults": sorted(set(faults)),
            "entry": draw(st.sampled_from(["dict_strict", "dict_lenient", "json_string", "yaml_string",
                                           "json_file", "yaml_file"]))}


def dict_body(case):
    data = case["data"]
    entry = case["entry"]
    fails = []
    d = env.fresh_dir("c16")
    try:
        lenient = entry in ("dict_lenient", "yaml_file")

        def call():
            if entry.startswith("dict"):
                import copy
                return DictReader(show_warnings=False, ignore_errors=lenient).to_odml(copy.deepcopy(data))
            fmt = entry.split("_")[0].upper()
            text = json.dumps(data) if fmt == "JSON" else yaml.safe_dump(data)
            if entry.endswith("string"):
                return ODMLReader(fmt, show_warnings=False).from_string(text)
            path = os.path.join(d, "in." + fmt.lower())
            with open(path, "w") as fh:
                fh.write(text)
            return ODMLReader(fmt, show_warnings=False).from_file(path)
        res, exc = guarded(call)
        current = isinstance(data, dict) and data.get("odml-version") == "1.1" and \
            isinstance(data.get("Document"), dict)
        doc = judge(res, exc, "dict reader %s" % entry, fails, lenient_must_succeed=bool(lenient and current),
                    gen="dict", entry=entry, lenient=lenient, faults=case["faults"])
        if doc is not None and lenient and current:
            have = {s.name for s in list.__iter__(doc.sections)}
            for m in case["markers"]:
                if m not in have:
                    fails.append(failure("reader.lenient_lost_valid_part", "lenient dict reader dropped the valid "
                                         "top-level Section %r (kept %r)" % (m, sorted(map(str, have))),
                                         gen="dict", entry=entry))
                    break
        return bool(case["faults"]), ["dict:" + entry, "dict:" + ("document" if res is not None else "refused")] + \
            ["fault:" + f for f in case["faults"]], fails
    finally:
        env.rm(d)


# ------------------------------------------------------------------------------------
# (e) a small enumerated table of byte-level and size-level cases no text generator reaches

SPECIAL = {
    "invalid_utf8_file": b'<?xml version="1.0" encoding="UTF-8"?>\n<odML version="1.1"><author>\xff\xfe\xe4</author></odML>',
    "truncated_utf16_file": '<?xml version="1.0" encoding="UTF-16"?><odML version="1.1"/>'.encode("utf-16")[:-1],
    "latin1_declared_utf8_bytes": '<?xml version="1.0" encoding="ISO-8859-1"?><odML version="1.1"><author>\u00e4\u20ac</author></odML>'.encode("utf-8"),
    "empty_file": b"",
    "nul_bytes_file": b'<odML version="1.1">\x00\x00</odML>',
    "bom_only": b"\xef\xbb\xbf",
    "long_value_in_list": ('<odML version="1.1"><section><name>s</name><type>t</type><property><name>p</name>'
                           '<value>[a,%s]</value></property></section></odML>' % ("x" * 140000)).encode(),
    "long_single_value": ('<odML version="1.1"><section><name>s</name><type>t</type><property><name>p</name>'
                          '<value>%s</value></property></section></odML>' % ("y" * 300000)).encode(),
    "deep_nesting": ('<odML version="1.1">' + "<section><name>n</name><type>t</type>" * 150 +
                     "</section>" * 150 + "</odML>").encode(),
    "deep_nesting_400": ('<odML version="1.1">' + "<section><name>n</name><type>t</type>" * 400 +
                         "</section>" * 400 + "</odML>").encode(),
    "deep_nesting_1500": ('<odML version="1.1">' + "<section><name>n</name><type>t</type>" * 1500 +
                          "</section>" * 1500 + "</odML>").encode(),
}


def special_body(name, lenient, entry):
    data = SPECIAL[name]
    fails = []
    d = env.fresh_dir("c16")
    try:
        path = os.path.join(d, "in.xml")
        with open(path, "wb") as fh:
            fh.write(data)

        def call():
            if entry == "file":
                return XMLReader(ignore_errors=lenient, show_warnings=False).from_file(path)
            if entry == "load":
                return odml.load(path, "XML", show_warnings=False)
            if entry == "fileobj":
                # "file path ... or file like object": an open file of the file on disk
                with open(path, "rb") as fh:
                    return XMLReader(ignore_errors=lenient, show_warnings=False).from_file(fh)
            if entry == "bytesio":
                return XMLReader(ignore_errors=lenient, show_warnings=False).from_file(io.BytesIO(data))
            return XMLReader(ignore_errors=lenient, show_warnings=False).from_string(data)
        res, exc = guarded(call)
        doc = judge(res, exc, "special input %s (%s, %s)" % (name, "lenient" if lenient else "strict", entry),
                    fails, gen="special", name=name, lenient=lenient, entry=entry)
        if doc is not None and name.startswith("long_"):
            vals = doc.sections[0].properties[0].values
            if not vals or len(str(vals[-1])) < 140000:
                fails.append(failure("reader.lost_long_value", "%s: the long value was not loaded" % name))
        return res is not None, fails
    finally:
        env.rm(d)


def run_special(ctx):
    for name in sorted(SPECIAL):
        for lenient in (False, True):
            for entry in ("file", "load", "bytes", "fileobj", "bytesio"):
                case = {"name": name, "lenient": lenient, "entry": entry}
                ok, fails = special_body(name, lenient, entry)
                unmatched = ctx.case(case, True, ["special:" + name, "special:" + ("document" if ok else "refused")],
                                     fails, kind="special")
                if unmatched:
                    ctx.violation("special", case, unmatched)


def plan(tier):
    if tier == "quick":
        return ([{"name": "arbitrary%d" % i, "type": "a", "n": 800} for i in range(3)] +
                [{"name": "grammar%d" % i, "type": "b", "n": 500} for i in range(6)] +
                [{"name": "mutation%d" % i, "type": "c", "n": 300} for i in range(3)] +
                [{"name": "dict%d" % i, "type": "d", "n": 500} for i in range(4)] +
                [{"name": "special", "type": "special"}])
    return ([{"name": "arbitrary%d" % i, "type": "a", "n": 15000} for i in range(3)] +
            [{"name": "grammar%d" % i, "type": "b", "n": 8000} for i in range(5)] +
            [{"name": "mutation%d" % i, "type": "c", "n": 5000} for i in range(3)] +
            [{"name": "dict%d" % i, "type": "d", "n": 8000} for i in range(4)] +
            [{"name": "special", "type": "special"}] +
            [{"name": "atheris%d" % i, "type": "atheris", "runs": 800000, "part": i} for i in range(4)])


def run(shard, seed, ctx):
    t = shard["type"]
    if t == "a":
        hyp.drive(ctx, "arbitrary", st.tuples(ARBITRARY, st.booleans(), st.booleans()).map(list),
                  lambda c: arbitrary_body(tuple(c)), shard["n"], seed)
    elif t == "b":
        hyp.drive(ctx, "grammar", grammar_case(), grammar_body, shard["n"], seed)
    elif t == "c":
        hyp.drive(ctx, "mutation", mutation_cases(), mutation_body, shard["n"], seed)
    elif t == "d":
        hyp.drive(ctx, "dict", dict_case(), dict_body, shard["n"], seed)
    elif t == "special":
        run_special(ctx)
    else:
        from ..fuzz import xml_atheris
        xml_atheris.campaign(ctx, shard["runs"], seed, shard.get("part"))


def replay(kind, case):
    if kind == "arbitrary":
        return arbitrary_body(tuple(case))[2]
    if kind == "grammar":
        return grammar_body(case)[2]
    if kind == "mutation":
        return mutation_body(case)[2]
    if kind == "dict":
        return dict_body(case)[2]
    if kind == "special":
        return special_body(case["name"], case["lenient"], case["entry"])[1]
    if kind == "atheris":
        from ..fuzz import xml_atheris
        return xml_atheris.replay(case)
    raise ValueError(kind)
