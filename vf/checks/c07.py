"""C07 - save never writes an invalid document and a failed save harms no file."""
import itertools
import os
import warnings

from hypothesis import strategies as st

import odml
from odml.tools.odmlparser import ODMLReader, ODMLWriter
from odml.tools.parser_utils import RDF_CONVERSION_FORMATS, ParserException
from odml.tools.rdf_converter import RDFWriter
from odml.tools.xmlparser import XMLWriter

from .. import build, env, hyp, snap, spec as S
from ..core import failure

PROPERTY = "C07"
LEVEL = "fault_enumeration"
EXHAUSTIVE = ("the table invalidation route x serialisation fault x format (XML plain/local_style, JSON, YAML, "
              "RDF x every sub-format of RDF_CONVERSION_FORMATS) x target absent/present x entry point is "
              "enumerated completely in both tiers; the documents filling the cells are sampled")
RULE = ("complete enumeration (itertools.product) of the fault table; each cell is run on Hypothesis-generated "
        "documents. Oracle: (a) a validation error makes odml.save / ODMLWriter.write_file raise "
        "ParserException in every format; (b) whenever any entry point raises, the target path (and the "
        "suffixed path the RDF writer derives) is absent if it was absent and byte-identical if it was "
        "present, and the directory listing is unchanged; (c) a document with warnings only is written, "
        "loads back to the same content and a warning is emitted. Non-trivial = a cell where the call raised "
        "and the target pre-existed; distinct = distinct (cell, document)")
ASSUMPTIONS = ["faults are content-caused (those the property lists) - no OS-level I/O errors are injected",
               "duplicate sibling names are produced with list.insert on the child lists (.sections / "
               ".properties), the only route that still admits them",
               "'trix' is listed by the library but cannot be written from a plain graph by the installed "
               "rdflib: it is treated as a serialisation fault"]

ROUTES = ["valid", "warnings_only", "warnings_as_errors", "type_cleared", "duplicate_ids", "duplicate_names_top",
          "duplicate_names_nested", "duplicate_prop_names"]
FAULTS = ["none", "rdf_format_unknown", "xml_forbidden_value", "xml_forbidden_attr", "xml_forbidden_name",
          "json_unencodable_attr", "lone_surrogate"]
FORMATS = [("XML", "plain"), ("XML", "local_style"), ("JSON", None), ("YAML", None)] + \
    [("RDF", f) for f in sorted(RDF_CONVERSION_FORMATS)]
TARGETS = ["absent", "present"]
ENTRIES = ["odml_save", "odmlwriter", "lowlevel"]
SENTINEL = b"previous content \xff\xfe that must survive\n"


def cells():
    out = []
    for route, fault, fmt, target, entry in itertools.product(ROUTES, FAULTS, FORMATS, TARGETS, ENTRIES):
        backend, sub = fmt
        if entry == "lowlevel" and backend not in ("XML", "RDF"):
            continue
        if fault == "rdf_format_unknown" and backend != "RDF":
            continue
        if fault == "rdf_format_unknown" and sub != "xml":
            continue        # one cell per entry is enough: the sub-format is replaced
        if fault == "json_unencodable_attr" and backend == "XML" and sub == "local_style":
            continue
        out.append((route, fault, backend, sub, target, entry))
    return out


def make_doc(spec, route, fault):
    doc = build.build_doc(spec)
    sec = odml.Section(name="c07-holder", type="holder-type", parent=doc)
    prop = odml.Property(name="c07-prop", values=["v1", "v2"], parent=sec)
    expect_error = False
    if route in ("warnings_only", "warnings_as_errors"):
        odml.Section(name="c07-unspecified", type="n.s.", parent=doc)
        prop.val_cardinality = (5, None)
    elif route == "type_cleared":
        sec.type = None
        expect_error = True
    elif route == "duplicate_ids":
        other = odml.Section(name="c07-twin", type="t", parent=doc)
        other.new_id(sec.id)
        expect_error = True
    elif route.startswith("duplicate_"):
        # no container method admits duplicates any more; the child lists themselves still do
        if route == "duplicate_names_top":
            odml.Section(name="c07-dup", type="t", parent=doc)
            doc.sections.insert(0, odml.Section(name="c07-dup", type="t"))
        elif route == "duplicate_names_nested":
            odml.Section(name="twin", type="t", parent=sec)
            sec.sections.insert(0, odml.Section(name="twin", type="t"))
        else:
            odml.Property(name="c07-dup-prop", values=[2], parent=sec)
            sec.properties.insert(0, odml.Property(name="c07-dup-prop", values=[1]))
        expect_error = True
    if fault == "xml_forbidden_value":
        prop.values = ["fine", "bad\x00char"]
    elif fault == "xml_forbidden_attr":
        prop.unit = "u\x0bx"
    elif fault == "xml_forbidden_name":
        sec.name = "name\x1f"
    elif fault == "json_unencodable_attr":
        doc.author = object()
    elif fault == "lone_surrogate":
        prop.definition = "lone \ud800 surrogate"
    return doc, expect_error


def call(doc, backend, sub, entry, fault, path):
    kw = {}
    if backend == "XML" and sub == "local_style":
        kw["local_style"] = True
    if backend == "RDF":
        kw["rdf_format"] = "no-such-format" if fault == "rdf_format_unknown" else sub
    if entry == "odml_save":
        odml.save(doc, path, backend, **kw)
    elif entry == "odmlwriter":
        ODMLWriter(backend).write_file(doc, path, **kw)
    elif backend == "XML":
        XMLWriter(doc).write_file(path, **kw)
    else:
        RDFWriter(doc).write_file(path, kw["rdf_format"])


def run_cell(cell, spec):
    return attempt(cell, lambda: make_doc(spec, cell[0], cell[1]))


def attempt(cell, maker):
    route, fault, backend, sub, target, entry = cell
    fails = []
    d = env.fresh_dir("c07")
    ext = {"XML": ".xml", "JSON": ".json", "YAML": ".yaml"}.get(backend) or \
        RDF_CONVERSION_FORMATS.get(sub, ".rdf")
    path = os.path.join(d, "out" + ext)
    derived = path + RDF_CONVERSION_FORMATS.get(sub, "") if backend == "RDF" else None
    try:
        doc, expect_error = maker()
        if target == "present":
            with open(path, "wb") as fh:
                fh.write(SENTINEL)
        listing = sorted(os.listdir(d))
        before_img = None
        try:
            before_img = snap.normalize(snap.content(doc), trim=True)
        except Exception:
            pass
        raised = None
        with warnings.catch_warnings(record=True) as caught:
            warnings.simplefilter("always")
            if route == "warnings_as_errors":
                # a caller who turns the "unresolved issues" report into an exception (python -W error):
                # the save then raises although the document is saveable - and must leave no file either
                warnings.filterwarnings("error", message=".*unresolved issues.*")
            try:
                call(doc, backend, sub, entry, fault, path)
            except Exception as exc:
                raised = exc
        loc = dict(route=route, fault=fault, backend=backend, sub=sub, target=target, entry=entry)
        validating = entry in ("odml_save", "odmlwriter")
        if expect_error and validating:
            if raised is None:
                fails.append(failure("save.invalid_written", "a document with a validation error (%s) was "
                                     "saved as %s/%s through %s" % (route, backend, sub, entry), **loc))
            elif not isinstance(raised, ParserException):
                fails.append(failure("save.invalid_wrong_exception", "saving an invalid document (%s) raised "
                                     "%s instead of ParserException" % (route, type(raised).__name__), **loc))
        if raised is not None:
            now = sorted(os.listdir(d))
            if target == "absent":
                if os.path.exists(path) or (derived and os.path.exists(derived)) or now != listing:
                    fails.append(failure("save.failed_created_file", "%s/%s via %s raised %s(%s) but left "
                                         "files behind: %r" % (backend, sub, entry, type(raised).__name__,
                                                               str(raised)[:60], now), **loc))
            else:
                with open(path, "rb") as fh:
                    data = fh.read()
                if data != SENTINEL or now != listing:
                    fails.append(failure("save.failed_clobbered_file", "%s/%s via %s raised %s(%s) but the "
                                         "existing file now holds %d bytes (%r...), listing %r"
                                         % (backend, sub, entry, type(raised).__name__, str(raised)[:60],
                                            len(data), data[:20], now), **loc))
        else:
            # written
            if route == "warnings_only" and validating and fault == "none":
                if not any("unresolved issues" in str(w.message) for w in caught):
                    fails.append(failure("save.warnings_not_reported", "a document with warnings only was "
                                         "saved without any warning being emitted", **loc))
            if fault == "none" and backend in ("XML", "JSON", "YAML") and before_img is not None \
                    and route in ("valid", "warnings_only"):
                try:
                    back = odml.load(path, backend, show_warnings=False)
                    a = _strip_unc(before_img)
                    b = _strip_unc(snap.normalize(snap.content(back), trim=True))
                    if a != b:
                        dd = snap.diff(a, b, limit=1)
                        fails.append(failure("save.written_differs", "the file written for a saveable "
                                             "document does not load back to it: %r" % dd[:1], **loc))
                except Exception as exc:
                    fails.append(failure("save.written_unreadable", "the written file cannot be loaded: %r"
                                         % str(exc)[:100], **loc))
        return raised, fails
    finally:
        env.rm(d)


def _strip_unc(image):
    """uncertainty re-typing on XML load is known finding C01-F1, not this property's subject."""
    out = dict(image)
    out.pop("uncertainty", None)
    for k in ("sections", "props"):
        if k in out:
            out[k] = [_strip_unc(x) for x in out[k]]
    return out


# ------------------------------------------------------------------------------------
# validation errors placed anywhere in a generated tree

PLACED = ["type_cleared", "type_empty", "duplicate_ids", "duplicate_ids_spelled", "duplicate_section_names", "duplicate_property_names",
          "linked_type_cleared", "merged_type_cleared"]


def placed_cases():
    return st.fixed_dictionaries({
        "doc": S.doc_spec(max_depth=3, max_secs=3, max_props=2, text_classes=["plain"]),
        "error": st.sampled_from(PLACED),
        "i": st.integers(0, 40), "j": st.integers(0, 40),
        "fmt": st.integers(0, len(FORMATS) - 1),
        "entry": st.sampled_from(["odml_save", "odmlwriter"]),
        "target": st.sampled_from(TARGETS),
    })


def make_placed(case, notes):
    doc = build.build_doc(case["doc"])
    holder = odml.Section(name="c07-holder", type="holder-type", parent=doc)
    odml.Property(name="c07-prop", values=["v1", "v2"], parent=holder)
    inner = odml.Section(name="c07-inner", type="t", parent=holder)
    odml.Property(name="c07-inner-prop", values=[1], parent=inner)
    secs = list(doc.itersections())
    props = list(doc.iterproperties())
    i, j, error = case["i"], case["j"], case["error"]

    def depth(o):
        n = 0
        while o.parent is not None:
            o = o.parent
            n += 1
        return n
    if error in ("type_cleared", "type_empty"):
        sec = secs[i % len(secs)]
        sec.type = None if error == "type_cleared" else ""
        notes.append("depth:%d" % depth(sec))
    elif error == "duplicate_ids":
        objs = secs + props
        a = objs[i % len(objs)]
        b = objs[j % len(objs)]
        if b is a:
            b = objs[(j + 1) % len(objs)]
        b.new_id(a.id)
        first, second = (a, b) if objs.index(a) < objs.index(b) else (b, a)
        anc = second
        related = False
        while anc is not None:
            if anc is first or anc is first.parent:
                related = True
            anc = anc.parent
        notes.append("depth:%d+%d" % (depth(a), depth(b)))
        notes.append("dupids:" + ("ancestor_or_sibling" if related else "across_branches"))
    elif error == "duplicate_ids_spelled":
        # the same uuid in another spelling, given at creation, is the same id
        objs = secs + props
        a = objs[i % len(objs)]
        spell = [lambda u: u.upper(), lambda u: "{%s}" % u, lambda u: "urn:uuid:" + u,
                 lambda u: u.replace("-", "")][j % 4](a.id)
        cont = secs[j % len(secs)]
        if (i + j) % 2:
            new = odml.Section(name="c07-spelled", type="t", oid=spell, parent=cont)
        else:
            new = odml.Property(name="c07-spelled", values=[1], oid=spell, parent=cont)
        notes.append("depth:%d+%d" % (depth(a), depth(new)))
        notes.append("spelling:%d" % (j % 4))
    elif error == "duplicate_section_names":
        conts = [doc] + secs
        cont = [c for c in conts if len(c.sections)][i % len([c for c in conts if len(c.sections)])]
        kid = cont.sections[j % len(cont.sections)]
        # no container method admits duplicates any more; the child lists themselves still do
        twin = odml.Section(name=kid.name, type=kid.type)
        list.insert(cont.sections, j % (len(cont.sections) + 1), twin)
        twin._parent = cont
        notes.append("depth:%d" % (depth(kid)))
    elif error == "duplicate_property_names":
        conts = [c for c in secs if len(c.properties)]
        cont = conts[i % len(conts)]
        kid = cont.properties[j % len(cont.properties)]
        twin = odml.Property(name=kid.name, values=[1])
        list.insert(cont.properties, j % (len(cont.properties) + 1), twin)
        twin._parent = cont
        notes.append("depth:%d" % (depth(kid)))
    else:
        target = secs[i % len(secs)]
        cont = ([doc] + secs)[j % (len(secs) + 1)]
        node = cont
        while node is not None and node is not doc:
            if node is target:
                cont = doc     # a Section cannot link to one of its own ancestors
            node = node.parent
        lk = odml.Section(name="c07-linking", type=target.type, parent=cont)
        if error == "linked_type_cleared":
            try:
                lk.link = target.get_path()
            except ValueError:
                # the library refuses this path as a link (a name the path syntax cannot express):
                # the scenario cannot be built, which is no statement about saving
                raise _Unplaceable()
        else:
            lk.merge(target.clone())
        lk.type = None
        notes.append("depth:%d" % depth(lk))
        notes.append("merged_flag:%s" % bool(lk.is_merged))
    return doc, True


def placed_body(case):
    backend, sub = FORMATS[case["fmt"]]
    cell = ("placed:" + case["error"], "none", backend, sub, case["target"], case["entry"])
    notes = []
    try:
        raised, fails = attempt(cell, lambda: make_placed(case, notes))
    except _Unplaceable:
        return False, ["placed:unplaceable"], []
    return (raised is not None and case["target"] == "present"), \
        ["placed:" + case["error"], "format:%s/%s" % (backend, sub)] + ["placed:" + n for n in notes], fails


class _Unplaceable(Exception):
    pass


def doc_pool(seed, n):
    pool = []

    def body(spec):
        pool.append(spec)
        return False, [], []
    from ..core import Collector
    hyp.drive(Collector(PROPERTY), "pool", S.doc_spec(max_depth=2, max_secs=2, max_props=2,
                                                      text_classes=["plain", "comma", "nonascii"]),
              body, n, seed)
    return pool[:n] or [{"k": "doc", "sections": []}]


def plan(tier):
    ndocs = 2 if tier == "quick" else 150
    return [{"name": "table%d" % i, "i": i, "of": 16, "docs": ndocs} for i in range(16)] + \
        [{"name": "placed%d" % i, "type": "placed", "n": 120 if tier == "quick" else 8000} for i in range(8)] + \
        [{"name": "table_ascii_locale%d" % i, "i": i, "of": 4, "docs": 2 if tier == "quick" else 30,
          "env": "ascii_locale", "nonascii": True} for i in range(4)]


def run(shard, seed, ctx):
    if shard.get("type") == "placed":
        hyp.drive(ctx, "placed", placed_cases(), placed_body, shard["n"], seed)
        return
    pool = doc_pool(seed, shard["docs"])
    for j, cell in enumerate(cells()):
        if j % shard["of"] != shard["i"]:
            continue
        for k, spec in enumerate(pool):
            case = {"cell": list(cell), "doc": spec}
            if shard.get("env"):
                case["env"] = shard["env"]
            try:
                with env.watchdog():
                    raised, fails = run_cell(cell, spec)
            except env.CaseHang:
                raised, fails = None, [failure("hang.no_return", "saving did not return within %d s"
                                               % env.HANG_SECONDS)]
            nt = raised is not None and cell[4] == "present"
            classes = ["route:" + cell[0], "fault:" + cell[1], "format:%s/%s" % (cell[2], cell[3]),
                       "entry:" + cell[5], "outcome:" + ("raised" if raised is not None else "written")]
            unmatched = ctx.case(case, nt, classes, fails, kind="cell")
            if unmatched:
                ctx.violation("cell", case, unmatched)


def replay(kind, case):
    if kind == "placed":
        return placed_body(case)[2]
    return run_cell(tuple(case["cell"]), case["doc"])[1]
