"""C04 - sibling names stay unique; names and ids are never empty or malformed."""
from .. import hyp, tree_engine as T

PROPERTY = "C04"
LEVEL = "exploration"
RULE = ("same history engine as C03 with names drawn from {a,b,c} so clashes are frequent, plus rename to "
        "None/''/a sibling's name/the own name and ids from an enumerated table (valid, upper-case, "
        "braced, 32-hex, urn, truncated, garbage, empty) at creation and through new_id. After every "
        "step: sibling names unique (N1), name a non-empty str (N2), id a canonical UUID (N3); an "
        "operation the model predicts to create a clash must raise. Non-trivial = history with >= 1 "
        "attempted clash through a route other than plain append; distinct = distinct history")
ASSUMPTIONS = ["names assigned are str (the property speaks of names, not arbitrary objects)",
               "attaching an object that is already a child of the destination is not a clash"]


def body(history):
    flags, classes, fails = T.run_history(history, want=("names",))
    nt = len(flags["clash_routes"]) >= 1
    return nt, classes + ["route:" + r for r in flags["clash_routes"]], fails


def plan(tier):
    nshards, n, steps = (16, 1200, 25) if tier == "quick" else (16, 25000, 60)
    return [{"name": "hist%d" % i, "n": n, "steps": steps} for i in range(nshards)]


def run(shard, seed, ctx):
    hyp.drive(ctx, "history", T.histories(shard["steps"]), body, shard["n"], seed)


def replay(kind, case):
    return body([list(s) for s in case])[2]
