"""C18 - background loading of terminologies/templates is transparent in every schedule."""
import hashlib
import itertools
import os
import tempfile
import time

from hypothesis import strategies as st

import odml
import odml.templates as templ
import odml.terminology as term
from odml.tools.xmlparser import XMLReader

from .. import env, hyp, sched as SCH, snap
from ..core import failure

PROPERTY = "C18"
LEVEL = "exploration"
EXHAUSTIVE = ("for every (include graph, caller program, cache state) of the fixed list: all schedules (choice "
              "sequences at table-access / thread start / join / lock granularity) with at most 2 preemptions "
              "(quick) or 3 (thorough) are enumerated by DFS")
RULE = ("the harness owns the schedule: the library's threading name is replaced by a deterministic scheduler "
        "and the shared loaded/loading tables by instrumented subclasses whose accesses are scheduling points; "
        "include graphs {single, chain of 3, diamond, chain with missing leaf, chain with unparsable leaf} as "
        "file: URLs, caller programs P1-P8 for terminology and TemplateHandler, cache empty / warm / stale. "
        "Bounded exhaustive DFS over schedules plus Hypothesis-drawn programs and choice sequences. Oracle: "
        "every load(u) returns a document whose content equals the single-threaded reference (None where the "
        "resource cannot be fetched or parsed), no exception in the caller or any loader thread, no deadlock, "
        "step bound, identical cached object on later loads until refresh, cache directory untouched by "
        "failed fetches. Non-trivial = a schedule with >= 1 context switch between two threads that both "
        "work on the same URL; distinct = distinct (graph, program, cache, normalised switch trace)")
ASSUMPTIONS = ["preemption inside a single table operation, inside lxml or inside file I/O is not modelled",
               "liveness is bounded-step (4000 scheduling points)",
               "for a resource whose own include cannot be resolved load may return None or the document; it "
               "must not raise"]


# ------------------------------------------------------------------------------------
# instrumented tables

_ACTIVE = [None]


def _yp(label):
    s = _ACTIVE[0]
    if s is not None and s.managed():
        s.yield_point(label)


class YieldDict(dict):
    def __contains__(self, k):
        _yp("loading.contains")
        return dict.__contains__(self, k)

    def __getitem__(self, k):
        _yp("loading.get")
        return dict.__getitem__(self, k)

    def __setitem__(self, k, v):
        _yp("loading.set")
        dict.__setitem__(self, k, v)

    def pop(self, *a):
        _yp("loading.pop")
        return dict.pop(self, *a)

    def get(self, *a):
        _yp("loading.get")
        return dict.get(self, *a)

    def setdefault(self, *a):
        _yp("loading.set")
        return dict.setdefault(self, *a)

    def clear(self):
        _yp("loading.clear")
        dict.clear(self)


def instrument(cls, prefix):
    class Instrumented(cls):
        def __contains__(self, k):
            _yp(prefix + ".contains")
            return dict.__contains__(self, k)

        def __getitem__(self, k):
            _yp(prefix + ".get")
            return dict.__getitem__(self, k)

        def __setitem__(self, k, v):
            _yp(prefix + ".set")
            dict.__setitem__(self, k, v)

        def get(self, *a):
            _yp(prefix + ".get")
            return dict.get(self, *a)

        def pop(self, *a):
            _yp(prefix + ".pop")
            return dict.pop(self, *a)

        def clear(self):
            _yp(prefix + ".clear")
            dict.clear(self)
    Instrumented.__name__ = "Instrumented" + cls.__name__
    return Instrumented


ITerm = instrument(term.Terminologies, "loaded")
ITempl = instrument(templ.TemplateHandler, "loaded")


# ------------------------------------------------------------------------------------
# include graphs as files

GRAPHS = ["single", "chain", "diamond", "missing_leaf", "unparsable_leaf", "twins"]


def make_graph(kind, root, escaped=False):
    """Writes the files; returns dict name -> url (and which are loadable).

    ``escaped``: the files live in a directory whose name needs percent escapes in a URL
    (a blank, an umlaut) and the URLs are written the way ``pathname2url`` writes them."""
    if escaped:
        root = os.path.join(root, u"my templ\u00e4tes")
    os.makedirs(root, exist_ok=True)

    def url(name):
        if escaped:
            from urllib.request import pathname2url
            return "file://" + pathname2url(os.path.join(root, name + ".xml"))
        return "file://" + os.path.join(root, name + ".xml")

    def save(name, doc):
        odml.tools.xmlparser.XMLWriter(doc).write_file(os.path.join(root, name + ".xml"))

    def leaf(values=(1, 2, 3)):
        d = odml.Document(author="D")
        s = odml.Section(name="dsec", type="leaf", parent=d)
        odml.Property(name="dp", values=list(values), parent=s)
        odml.Section(name="dsub", type="t", parent=s)
        return d

    def mid(name, target_url, target_path):
        d = odml.Document(author=name)
        s = odml.Section(name=name.lower() + "sec", type="mid", parent=d)
        odml.Property(name=name.lower() + "p", values=["own"], parent=s)
        s._include = "%s#%s" % (target_url, target_path)
        return d

    urls = {}
    if kind == "twins":
        # like the diamond, but the two leaves are different resources whose URLs differ only in the
        # letter case of a directory
        for sub, vals in (("Rig", (1, 2, 3)), ("rig", (7, 8, 9))):
            os.makedirs(os.path.join(root, sub), exist_ok=True)
            odml.tools.xmlparser.XMLWriter(leaf(vals)).write_file(os.path.join(root, sub, "D.xml"))
        save("B", mid("B", url("Rig/D"), "/dsec"))
        save("C", mid("C", url("rig/D"), "/dsec"))
        a = odml.Document(author="A")
        s1 = odml.Section(name="a1", type="top", parent=a)
        s1._include = "%s#/bsec" % url("B")
        s2 = odml.Section(name="a2", type="top", parent=a)
        s2._include = "%s#/csec" % url("C")
        save("A", a)
        return {"A": url("A"), "B": url("B"), "C": url("C"), "D": url("Rig/D")}
    if kind == "single":
        save("D", leaf())
        urls = {"D": url("D")}
    else:
        if kind in ("chain", "diamond"):
            save("D", leaf())
        elif kind == "unparsable_leaf":
            with open(os.path.join(root, "D.xml"), "w") as fh:
                fh.write("this is not XML <<<")
        # missing_leaf: no D file at all
        save("B", mid("B", url("D"), "/dsec"))
        if kind == "diamond":
            save("C", mid("C", url("D"), "/dsec"))
            a = odml.Document(author="A")
            s1 = odml.Section(name="a1", type="top", parent=a)
            s1._include = "%s#/bsec" % url("B")
            s2 = odml.Section(name="a2", type="top", parent=a)
            s2._include = "%s#/csec" % url("C")
            save("A", a)
            urls = {"A": url("A"), "B": url("B"), "C": url("C"), "D": url("D")}
        else:
            save("A", mid("A", url("B"), "/bsec"))
            urls = {"A": url("A"), "B": url("B"), "D": url("D")}
    return urls


def cache_files():
    d = os.path.join(tempfile.gettempdir(), "odml.cache")
    out = {}
    if os.path.isdir(d):
        for n in sorted(os.listdir(d)):
            with open(os.path.join(d, n), "rb") as fh:
                out[n] = (hashlib.sha1(fh.read()).hexdigest(), os.stat(os.path.join(d, n)).st_mtime_ns)
    return out


import threading as _real_threading

_LOCK_TYPES = (type(_real_threading.Lock()), type(_real_threading.RLock()))


def swap_locks(shim):
    """Replace every lock the library keeps on its tables / modules by a scheduler-aware lock,
    so that waiting for a lock is a scheduling point. Returns the list to restore."""
    saved = []
    for holder in (term.Terminologies, templ.TemplateHandler, term, templ, term.terminologies):
        for name, val in list(vars(holder).items()):
            if isinstance(val, _LOCK_TYPES):
                reentrant = isinstance(val, _LOCK_TYPES[1])
                saved.append((holder, name, val))
                setattr(holder, name, shim.RLock() if reentrant else shim.Lock())
    return saved


def restore_locks(saved):
    for holder, name, val in saved:
        setattr(holder, name, val)


def reset_tables():
    dict.clear(term.terminologies)
    term.terminologies.reload_cache = False
    term.Terminologies.loading = YieldDict()
    templ.TemplateHandler.loading = YieldDict()


def clear_cache():
    d = os.path.join(tempfile.gettempdir(), "odml.cache")
    env.rm(d)


def age_cache():
    d = os.path.join(tempfile.gettempdir(), "odml.cache")
    if os.path.isdir(d):
        old = time.time() - 3 * 24 * 3600
        for n in os.listdir(d):
            os.utime(os.path.join(d, n), (old, old))


def reference(urls):
    """Single-threaded reference results, computed with the real threading module."""
    ref = {}
    for name, u in urls.items():
        reset_tables()
        clear_cache()
        try:
            doc = term.terminologies.load(u)
            ref[name] = ("doc", snap.normalize(snap.content(doc), merged=False, ids=False)) if doc is not None else ("none",)
        except Exception as exc:
            ref[name] = ("raised", type(exc).__name__)
    reset_tables()
    clear_cache()
    return ref


# ------------------------------------------------------------------------------------
# caller programs: lists of (op, url-name)

PROGRAMS = {
    "P1": [("load", "A")],
    "P2": [("deferred", "A"), ("load", "A")],
    "P3": [("deferred", "A"), ("deferred", "D"), ("load", "D"), ("load", "A")],
    "P4": [("deferred", "A"), ("load", "B"), ("load", "A")],
    "P5": [("deferred", "A"), ("deferred", "A"), ("load", "A"), ("load", "A")],
    "P6": [("load", "A"), ("refresh", "A"), ("load", "A")],
    "P7": [("include", "A")],
    "P8": [("repository", "A")],
    "P9": [("deferred", "B"), ("deferred", "D"), ("load", "A"), ("load", "D")],
    # the caller asks for an included resource while the loader of the including one is under way
    "P10": [("deferred", "A"), ("load", "D"), ("load", "D")],
    "P11": [("deferred", "A"), ("load", "B"), ("load", "D"), ("load", "B")],
    "P12": [("refresh", "A"), ("load", "D")],
    # a refresh while the deferred load of the same resource is under way
    "P13": [("deferred", "A"), ("refresh", "A"), ("load", "A")],
}


def run_schedule(graph, urls, program, target, cache, choices, ref):
    """One run. Returns (scheduler, results, failures)."""
    reset_tables()
    clear_cache()
    gone = None
    if cache in ("warm", "stale", "stale_gone", "warm_gone"):
        for u in urls.values():
            try:
                term.cache_load(u)
            except Exception:
                pass
        if cache in ("stale", "stale_gone"):
            age_cache()
        if cache in ("stale_gone", "warm_gone"):
            # the leaf can no longer be fetched; only an outdated (or a still fresh) cache file is left
            from urllib.request import url2pathname
            gone = url2pathname(urls["D"][len("file://"):])
            with open(gone, "rb") as fh:
                gone_data = fh.read()
            os.remove(gone)
    cache_before = cache_files()
    s = SCH.Scheduler(choices)
    shim = SCH.Shim(s)
    old = (term.threading, templ.threading, term.terminologies.__class__)
    handler = None
    results = []
    saved_locks = []
    try:
        term.threading = shim
        templ.threading = shim
        term.terminologies.__class__ = ITerm
        saved_locks = swap_locks(shim)
        if target == "templates":
            handler = ITempl()
        _ACTIVE[0] = s

        seen_at_return = {}

        def prog():
            out = []
            api = handler if handler is not None else term.terminologies
            for op, name in program:
                u = urls.get(name if name in urls else sorted(urls)[0])
                try:
                    if op == "load":
                        res = api.load(u)
                        # what the caller got is judged at the moment it got it
                        seen_at_return[id(res)] = None if res is None else \
                            snap.normalize(snap.content(res), merged=False, ids=False)
                        out.append((op, name, res, None))
                    elif op == "deferred":
                        api.deferred_load(u)
                        out.append((op, name, None, None))
                    elif op == "refresh":
                        if handler is not None:
                            out.append((op, name, None, None))
                            continue
                        term.terminologies.refresh(u)
                        out.append((op, name, None, None))
                    elif op == "include":
                        d = odml.Document()
                        sec = odml.Section(name="holder", type="t", parent=d)
                        first = {"A": "asec", "B": "bsec", "D": "dsec"}.get(name, "dsec")
                        if graph in ("diamond", "twins") and name == "A":
                            first = "a1"
                        sec.include = "%s#/%s" % (u, first)
                        out.append((op, name, sec, None))
                    elif op == "repository":
                        d = odml.Document()
                        sec = odml.Section(name="holder", type="leaf", parent=d)
                        sec.repository = u
                        out.append((op, name, sec.get_terminology_equivalent(), None))
                except SCH.SchedAbort:
                    raise
                except Exception as exc:
                    if op == "include" and graph in ("missing_leaf", "unparsable_leaf"):
                        out.append((op, name, None, None))      # a refused include (C06's subject)
                    else:
                        out.append((op, name, None, exc))
            # every resource the caller has loaded is loaded once more at the end: same object
            if not any(op == "refresh" for op, _ in program) or program[-1][0] == "load":
                for op, name in list(dict.fromkeys((o, n) for o, n in program if o == "load")):
                    u = urls.get(name if name in urls else sorted(urls)[0])
                    try:
                        res = api.load(u)
                        seen_at_return.setdefault(id(res), None if res is None else
                                                  snap.normalize(snap.content(res), merged=False, ids=False))
                        out.append(("load", name, res, None))
                    except SCH.SchedAbort:
                        raise
                    except Exception as exc:
                        out.append(("load", name, None, exc))
            return out
        holder = s.run(prog)
        results = holder.get("result") or []
        harness_timeout = holder.get("harness_timeout", False)
    finally:
        _ACTIVE[0] = None
        term.threading, templ.threading = old[0], old[1]
        term.terminologies.__class__ = old[2]
        restore_locks(saved_locks)
        if gone is not None:
            with open(gone, "wb") as fh:
                fh.write(gone_data)
    fails = []
    loc = dict(graph=graph, program=[list(p) for p in program], target=target, cache=cache)
    if harness_timeout:
        fails.append(failure("load.hang", "the run did not finish within the harness timeout (schedule %r)"
                             % (choices,), **loc))
    if s.deadlock:
        fails.append(failure("load.deadlock", "deadlock: %s (schedule %r)" % (s.deadlock, choices), **loc))
    if s.stepbound:
        fails.append(failure("load.livelock", "more than %d scheduling points (schedule %r)"
                             % (s.MAX_STEPS, choices), **loc))
    for name, etype, msg, tb in s.errors:
        fails.append(failure("load.thread_exception", "thread %s ended with %s: %s (schedule %r)"
                             % (name, etype, msg, choices), exc=etype, thread="caller" if name == "caller"
                             else "loader", **loc))
    loaded = {}
    refreshed = False
    for op, name, res, exc in results:
        if exc is not None:
            fails.append(failure("load.raised", "%s(%s) raised %s: %s (schedule %r)"
                                 % (op, name, type(exc).__name__, str(exc)[:120], choices),
                                 exc=type(exc).__name__, op=op,
                                 bad_leaf=graph in ("missing_leaf", "unparsable_leaf"), **loc))
            continue
        if op == "refresh":
            refreshed = True
            loaded = {}
        if op == "load":
            r = ref.get(name)
            if r is None:
                continue
            broken_include = graph in ("missing_leaf", "unparsable_leaf") and name in ("A", "B")
            if cache == "warm_gone":
                # results depend on whether a refresh came first; only exceptions, identity and the
                # cache files are judged in this state
                if res is not None:
                    if name in loaded and loaded[name] is not res:
                        fails.append(failure("load.not_cached", "a later load(%s) returned another object "
                                             "although no refresh happened (schedule %r)" % (name, choices), **loc))
                    loaded[name] = res
                continue
            if cache == "stale_gone":
                # nothing that needs D can be fetched any more
                r = ("none",)
                broken_include = name != "D"
            if res is None:
                if r[0] == "doc" and not broken_include:
                    fails.append(failure("load.none", "load(%s) returned None although the resource loads "
                                         "single-threaded (schedule %r)" % (name, choices), **loc))
            else:
                if r[0] == "none" and not broken_include:
                    fails.append(failure("load.unexpected_document", "load(%s) returned a document although "
                                         "the resource cannot be fetched or parsed" % name, **loc))
                elif r[0] == "doc":
                    got = seen_at_return.get(id(res)) or snap.normalize(snap.content(res), merged=False, ids=False)
                    if got != r[1]:
                        d = snap.diff(r[1], got, limit=2)
                        fails.append(failure("load.differs", "load(%s) returned a document that differs from "
                                             "the single-threaded result: %r (schedule %r)"
                                             % (name, d, choices), **loc))
                if name in loaded and loaded[name] is not res:
                    fails.append(failure("load.not_cached", "a later load(%s) returned another object although "
                                         "no refresh happened (schedule %r)" % (name, choices), **loc))
                loaded[name] = res
                if graph == "twins" and name == "A" and r[0] == "doc":
                    # known by construction, not taken from the library: the two branches end in
                    # different leaves
                    try:
                        v1 = res.sections["a1"].properties["dp"].values
                        v2 = res.sections["a2"].properties["dp"].values
                    except Exception as exc:
                        v1, v2 = repr(exc), None
                    if (v1, v2) != ([1, 2, 3], [7, 8, 9]):
                        fails.append(failure("load.differs", "load(A): the branches that include .../Rig/D.xml "
                                             "and .../rig/D.xml hold the values %r and %r, the files hold "
                                             "[1, 2, 3] and [7, 8, 9]" % (v1, v2), **loc))
    # failed fetches must not touch the cache
    after = cache_files()
    for name, u in urls.items():
        if ref.get(name, ("none",))[0] == "none" and graph == "missing_leaf" and name == "D":
            fn = [n for n in after if n.endswith("D.xml")]
            if fn and fn[0] not in cache_before:
                fails.append(failure("load.cache_created", "a failed fetch of %s created the cache file %s"
                                     % (name, fn[0]), **loc))
    if cache in ("stale_gone", "warm_gone"):
        for n, h in cache_before.items():
            if n.endswith("D.xml") and after.get(n) != h:
                fails.append(failure("load.cache_touched_by_failed_fetch", "the failed fetch of the leaf changed "
                                     "its outdated cache file %s (content or modification time)" % n, **loc))
    for n, h in cache_before.items():
        if n in after and after[n][0] != h[0] and cache == "warm":
            fails.append(failure("load.cache_overwritten", "cache file %s was rewritten although it was fresh"
                                 % n, **loc))
    return s, results, fails


def normalised_trace(s):
    return tuple((t[0],) + tuple(t[1:3]) for t in s.trace if t[0] in ("switch", "block"))


def combos(tier):
    out = []
    for graph in GRAPHS:
        for pname, prog in sorted(PROGRAMS.items()):
            names = {n for _, n in prog}
            if graph == "single":
                prog = [(op, "D") for op, _ in prog]
                if pname in ("P3", "P4", "P9", "P10", "P11"):
                    continue
            elif "C" in names and graph not in ("diamond", "twins"):
                continue
            for target in ("terminology", "templates"):
                if target == "templates" and pname in ("P6", "P7", "P8", "P12", "P13"):
                    continue
                for cache in ("empty", "warm", "stale", "stale_gone", "warm_gone"):
                    if cache != "empty" and pname not in ("P1", "P2", "P4", "P5", "P6", "P12"):
                        continue
                    if cache == "empty" and pname == "P12":
                        continue
                    if cache == "warm_gone" and pname not in ("P6", "P12", "P2"):
                        continue
                    if cache != "empty" and graph not in ("single", "chain") and tier == "quick":
                        continue
                    if cache in ("stale_gone", "warm_gone") and graph not in ("single", "chain"):
                        continue
                    out.append((graph, pname, prog, target, cache))
    return out


def run_combo(ctx, combo, bound, limit):
    graph, pname, prog, target, cache = combo
    root = env.fresh_dir("c18")
    try:
        # every third combination works on URLs that carry percent escapes
        urls = make_graph(graph, root, escaped=(sum(map(ord, graph + pname + target + cache)) % 3 == 0))
        ref = reference(urls)
        seen_fail = [0]

        def once(choices):
            s, results, fails = run_schedule(graph, urls, prog, target, cache, choices, ref)
            case = {"graph": graph, "program": pname, "target": target, "cache": cache, "choices": list(choices)}
            nt = s.switches >= 1 and len(s.threads) >= 2
            ctx.evaluations += 1
            ctx.classes["combo:%s/%s" % (graph, pname)] += 1
            if nt:
                ctx.add_nt((graph, pname, target, cache, normalised_trace(s)))
                if len(ctx.samples) < ctx.MAX_SAMPLES and s.switches >= 2:
                    ctx.sample({"kind": "schedule", "case": case, "trace": [list(t) for t in s.trace][:12]})
            if fails and seen_fail[0] < 2:
                unmatched = ctx.case(case, nt, [], fails[:4], count=False, kind="schedule")
                if unmatched:
                    seen_fail[0] += 1
                    ctx.violation("schedule", case, unmatched)
            elif fails:
                ctx.case(case, nt, [], fails[:4], count=False, kind="schedule")
            if seen_fail[0] >= 2:
                return None         # two violations of this combination are reported: stop its search
            return s.decisions
        n = SCH.explore(once, bound, limit)
        ctx.extra["schedules_enumerated"] = ctx.extra.get("schedules_enumerated", 0) + n
    finally:
        env.rm(root)


# Hypothesis part: random programs and random schedules beyond the preemption bound
RANDOM_CASE = st.fixed_dictionaries({
    "graph": st.sampled_from(GRAPHS),
    "program": st.lists(st.tuples(st.sampled_from(["load", "deferred", "deferred", "load", "refresh", "include",
                                                   "repository"]),
                                  st.sampled_from(["A", "B", "D", "A", "D"])).map(list), min_size=1, max_size=5),
    "target": st.sampled_from(["terminology", "terminology", "templates"]),
    "cache": st.sampled_from(["empty", "empty", "warm", "stale"]),
    "choices": st.lists(st.integers(0, 3), max_size=40),
})


def random_body(case):
    root = env.fresh_dir("c18r")
    try:
        urls = make_graph(case["graph"], root)
        ref = reference(urls)
        prog = [tuple(p) for p in case["program"]]
        if case["graph"] == "single":
            prog = [(op, "D") for op, _ in prog]
        if case["target"] == "templates":
            prog = [(op, n) for op, n in prog if op in ("load", "deferred")] or [("load", "D")]
        s, results, fails = run_schedule(case["graph"], urls, prog, case["target"], case["cache"],
                                         case["choices"], ref)
        return s.switches >= 1, ["random:" + case["graph"]], fails[:4]
    finally:
        env.rm(root)


def plan(tier):
    cs = combos(tier)
    bound, limit = (2, 500) if tier == "quick" else (3, 9000)
    shards = []
    nsh = 14
    for i in range(nsh):
        shards.append({"name": "dfs%d" % i, "type": "dfs", "i": i, "of": nsh, "bound": bound, "limit": limit})
    n = 40 if tier == "quick" else 3000
    shards += [{"name": "random%d" % i, "type": "random", "n": n} for i in range(2)]
    return shards


def run(shard, seed, ctx):
    if shard["type"] == "dfs":
        for j, combo in enumerate(combos(ctx.tier)):
            if j % shard["of"] == shard["i"]:
                run_combo(ctx, combo, shard["bound"], shard["limit"])
    else:
        hyp.drive(ctx, "random", RANDOM_CASE, random_body, shard["n"], seed, reset=False, shrink_budget=150)


def replay(kind, case):
    if kind == "schedule":
        root = env.fresh_dir("c18p")
        try:
            urls = make_graph(case["graph"], root)
            ref = reference(urls)
            prog = PROGRAMS[case["program"]]
            if case["graph"] == "single":
                prog = [(op, "D") for op, _ in prog]
            s, results, fails = run_schedule(case["graph"], urls, prog, case["target"], case["cache"],
                                             case["choices"], ref)
            return fails[:6]
        finally:
            env.rm(root)
    return random_body(case)[2]
