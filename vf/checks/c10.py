"""C10 - RDF export is a faithful, well-formed graph that imports back unchanged."""
import copy
import datetime as dt
import os

import rdflib
from hypothesis import strategies as st
from rdflib.namespace import RDF, RDFS

import odml
from odml.tools.odmlparser import ODMLReader, ODMLWriter
from odml.tools.rdf_converter import RDFReader, RDFWriter

from .. import build, env, hyp, snap, spec as S
from ..core import failure

PROPERTY = "C10"
LEVEL = "exploration"
RULE = ("Hypothesis lists of 1-3 document specs (distinct ids; values of every dtype, floats with 17 "
        "significant digits, ints > 2^63, text with quotes, newlines, non-ASCII, falsy attributes) x "
        "serialisation {xml, nt, json-ld, turtle, n3} x sub-classing {on, off, custom map} x entry point "
        "(RDFWriter.get_rdf_str / write_file, ODMLWriter('RDF').to_string / write_file, odml.save; "
        "RDFReader.from_string / from_file, ODMLReader('RDF')). Oracles: graph shape evaluated on the "
        "rdflib.Graph with plain triple patterns (one Hub linking exactly the Documents, one node per object "
        "named by its id and typed as its class or the prescribed sub-class with a subClassOf triple, literal "
        "predicates == set attributes, containment edges == tree, one rdf:Seq per valued Property with _1.._n "
        "in order) and import round trip (one document per exported document, equal on the listed attributes "
        "with sibling order ignored). Non-trivial = >= 1 Property with >= 2 values and one of: full-precision "
        "float, big int, non-plain text, >= 2 documents")
ASSUMPTIONS = ["rdflib 7.x as installed", "repository URLs are not part of the compared attributes (the "
               "property lists ids, names, types, definitions, references, units, uncertainties, value "
               "origins, dtypes, values, author/date/version)",
               "the hasFileName triple the writer adds for provenance is tolerated",
               "n-tuple members are free of the tuple syntax characters"]

NS = "https://g-node.org/odml-rdf#"
FORMATS = ["xml", "nt", "json-ld", "turtle", "n3"]
SUBCLASS_TYPES = ["cell", "analysis", "datacite/creator", "analysis/psth"]
CUSTOM = {"custom/type": "CustomClass", "cell": "OverriddenCell"}
# an earlier export of the same process with another custom map must not influence a later one
PRIOR_CUSTOM = {"custom/type": "PriorClass", "other/type": "PriorOther", "cell": "PriorCell",
                "analysis/psth": "PriorPSTH"}


# repository urls (never fetched by an export): two different ones, each used several times
REPOS = [None, None, "file:///nonexistent/terminology-a.xml", None, "file:///nonexistent/terminology-b.xml",
         "file:///nonexistent/terminology-a.xml"]


def prescribed_table(sub):
    """Section type -> RDF class, from the resource file of the library and the map given to *this*
    writer - computed here, not read back from the writer object."""
    import yaml
    path = os.path.join(os.path.dirname(odml.__file__), "resources", "section_subclasses.yaml")
    with open(path, encoding="utf-8") as fh:
        table = dict(yaml.safe_load(fh))
    if sub in ("off", "off+custom"):
        return None
    if sub == "custom":
        table.update(CUSTOM)
    return table

DOC_PRED = {"author": "hasAuthor", "date": "hasDate", "version": "hasDocVersion"}
SEC_PRED = {"name": "hasName", "type": "hasType", "definition": "hasDefinition", "reference": "hasReference"}
PROP_PRED = {"name": "hasName", "definition": "hasDefinition", "dtype": "hasDtype", "unit": "hasUnit",
             "uncertainty": "hasUncertainty", "reference": "hasReference", "value_origin": "hasValueOrigin"}
STRUCT_PRED = {"hasSection", "hasProperty", "hasValue", "hasTerminology", "hasFileName", "hasId"}


def U(x):
    return rdflib.URIRef(NS + x)


@st.composite
def cases(draw, max_depth):
    n = draw(st.sampled_from([1, 1, 2, 3]))
    docs = []
    for i in range(n):
        d = draw(S.doc_spec(max_depth=max_depth, max_secs=2, max_props=3,
                            text_classes=["plain", "dquote", "squote", "newline", "nonascii", "comma",
                                          "xmlmeta", "lookalike"]))
        docs.append(d)
    sub = draw(st.sampled_from(["on", "off", "custom", "off+custom"]))
    return {"docs": docs, "format": draw(st.sampled_from(FORMATS)), "subclassing": sub,
            "writer": draw(st.sampled_from(["get_rdf_str", "write_file", "odmlwriter_str", "odmlwriter_file",
                                            "odml_save"])),
            "reader": draw(st.sampled_from(["rdfreader_str", "rdfreader_file", "odmlreader_str",
                                            "odmlreader_file"])),
            "sub_types": draw(st.lists(st.sampled_from(SUBCLASS_TYPES + ["custom/type"]), max_size=3)),
            "prior_export": draw(st.sampled_from([None, None, "custom", "on"])),
            "seed": draw(st.integers(0, 10 ** 6))}


def prepare(spec, k, seed, sub_types):
    spec = S.fill_ids(copy.deepcopy(spec), seed * 7 + k)
    spec["repository"] = None
    if (seed + k) % 3 == 0:
        # a Property with more than nine values: rdf:_10 sorts before rdf:_2 as text
        many = {"k": "prop", "name": "many-values", "id": None, "dtype": "int",
                "values": [(i * 7) % 13 for i in range(12)], "unit": None, "uncertainty": None,
                "definition": None, "reference": None, "dependency": None, "dependency_value": None,
                "value_origin": None, "val_card": None}
        spec["sections"] = list(spec["sections"]) + [
            {"k": "sec", "name": "many-holder", "type": "t", "id": None, "definition": None, "reference": None,
             "repository": None, "link": None, "include": None, "sec_card": None, "prop_card": None,
             "props": [many], "sections": []}]
        spec = S.fill_ids(spec, seed * 7 + k + 500009)
    secs = list(S.iter_secs(spec))
    spec["repository"] = REPOS[(seed + k) % len(REPOS)]
    for i, s in enumerate(secs):
        s["repository"] = REPOS[(seed // 3 + 2 * i + k) % len(REPOS)]
        if i < len(sub_types):
            s["type"] = sub_types[i]
    return spec


def lit_value(x):
    """Python value of an rdflib term."""
    return x.toPython() if isinstance(x, rdflib.Literal) else x


def same_value(expected, got):
    if isinstance(expected, float) and isinstance(got, float):
        return expected == got or (expected != expected and got != got)
    if isinstance(expected, bool) or isinstance(got, bool):
        return type(expected) is type(got) and expected == got
    if isinstance(expected, (int, float)) and isinstance(got, (int, float)):
        return float(expected) == float(got) and (isinstance(expected, float) == isinstance(got, float)
                                                  or True)
    return expected == got and type(expected) is type(got) or \
        (isinstance(expected, str) and isinstance(got, str) and expected == got)


def shortened(expected, got):
    """got is what rdflib's turtle/n3 writers make of a double: '%e' keeps 7 significant digits."""
    try:
        if isinstance(got, str):
            got = float(got)
        return isinstance(expected, float) and isinstance(got, float) and expected != got and \
            float("%e" % expected) == got
    except (TypeError, ValueError):
        return False


def tv_float(t):
    """float of a snapshot tv (float / num / str holding a number) or None."""
    try:
        if t[0] in ("float", "num"):
            return float.fromhex(t[1])
        if t[0] == "str":
            return float(t[1])
    except (ValueError, TypeError, IndexError):
        pass
    return None


def roundtrip_shortened(key, x, y):
    if key == "uncertainty":
        a, b = tv_float(x), tv_float(y)
        return a is not None and b is not None and shortened(a, b)
    if key == "values" and isinstance(x, list) and isinstance(y, list) and len(x) == len(y):
        diff = [(a, b) for a, b in zip(x, y) if a != b]
        return bool(diff) and all(a[0] == "float" and b[0] == "float" and
                                  shortened(tv_float(a), tv_float(b)) for a, b in diff)
    return False


def expected_values(p):
    # odML tuples have the documented text form "(a;b)"
    return [("(%s)" % ";".join(v)) if isinstance(v, list) else v for v in p.values]


def check_shape(graph, docs, table, fails, loc):
    hub = U("Hub")
    hub_docs = set(graph.objects(hub, U("hasDocument")))
    want = {U(d.id) for d in docs}
    if hub_docs != want:
        fails.append(failure("rdf.hub", "Hub links %d Documents, exported %d" % (len(hub_docs), len(want)),
                             **loc))
    hubs = set(graph.subjects(U("hasDocument"), None))
    if hubs - {hub}:
        fails.append(failure("rdf.hub", "more than one Hub node: %r" % sorted(map(str, hubs)), **loc))

    def literals(node):
        out = {}
        for p_, o in graph.predicate_objects(node):
            if isinstance(o, rdflib.Literal):
                out.setdefault(str(p_).replace(NS, ""), []).append(o)
        return out

    def check_attrs(node, obj, table_, kind):
        lits = literals(node)
        for attr, pred in table_.items():
            val = getattr(obj, attr)
            is_set = val is not None and val != ""
            got = lits.pop(pred, [])
            if is_set and len(got) != 1:
                fails.append(failure("rdf.attribute_missing", "%s %s: attribute %s=%r is set but the node has "
                                     "%d %s literals" % (kind, getattr(obj, "name", obj.id), attr, val,
                                                         len(got), pred), attr=attr, objkind=kind,
                                     falsy=not bool(val), **loc))
            elif not is_set and got:
                fails.append(failure("rdf.attribute_extra", "%s: unset attribute %s exported as %r"
                                     % (kind, attr, got[0]), attr=attr, objkind=kind, **loc))
            elif is_set:
                pv = lit_value(got[0])
                exp = val
                if attr == "dtype":
                    exp = str(val)
                if isinstance(exp, dt.date) and not isinstance(pv, dt.date):
                    pv = str(pv)
                    exp = str(exp)
                if not same_value(exp, pv):
                    fails.append(failure("rdf.attribute_value", "%s %s: attribute %s is %r, exported literal "
                                         "%r" % (kind, getattr(obj, "name", obj.id), attr, val, pv),
                                         attr=attr, objkind=kind, float_shortened=shortened(exp, pv), **loc))
        for pred in lits:
            if pred not in STRUCT_PRED and not pred.startswith("http"):
                fails.append(failure("rdf.attribute_extra", "%s node carries unexpected literal predicate %s"
                                     % (kind, pred), attr=pred, objkind=kind, **loc))

    def check_sec(sec):
        node = U(sec.id)
        types = set(graph.objects(node, RDF.type))
        want_t = U("Section")
        if table and sec.type in table:
            want_t = U(table[sec.type])
            if (want_t, RDFS.subClassOf, U("Section")) not in graph:
                fails.append(failure("rdf.subclass", "Section of type %r is typed %s but the subClassOf triple "
                                     "is missing" % (sec.type, table[sec.type]), **loc))
        if types != {want_t}:
            fails.append(failure("rdf.type", "Section %r [%s]: rdf:type is %r, expected %s"
                                 % (sec.name, sec.type, sorted(str(t).replace(NS, "") for t in types),
                                    str(want_t).replace(NS, "")), objkind="sec", **loc))
        check_attrs(node, sec, SEC_PRED, "Section")
        kids = set(graph.objects(node, U("hasSection")))
        if kids != {U(s.id) for s in list.__iter__(sec.sections)}:
            fails.append(failure("rdf.containment", "Section %r: hasSection edges do not equal its "
                                 "sub-Sections" % sec.name, **loc))
        props = set(graph.objects(node, U("hasProperty")))
        if props != {U(p.id) for p in list.__iter__(sec.properties)}:
            fails.append(failure("rdf.containment", "Section %r: hasProperty edges do not equal its "
                                 "Properties" % sec.name, **loc))
        for p in list.__iter__(sec.properties):
            check_prop(p)
        for s in list.__iter__(sec.sections):
            check_sec(s)

    def check_prop(p):
        node = U(p.id)
        if set(graph.objects(node, RDF.type)) != {U("Property")}:
            fails.append(failure("rdf.type", "Property %r is not typed odml:Property" % p.name,
                                 objkind="prop", **loc))
        check_attrs(node, p, PROP_PRED, "Property")
        seqs = list(graph.objects(node, U("hasValue")))
        vals = expected_values(p)
        if not vals:
            if seqs:
                members = [o for s_ in seqs for o in graph.objects(s_, None) if o != RDF.Seq]
                if members:
                    fails.append(failure("rdf.values", "Property %r has no values but its sequence has members"
                                         % p.name, **loc))
            return
        if len(seqs) != 1:
            fails.append(failure("rdf.values", "Property %r with %d values has %d value sequences"
                                 % (p.name, len(vals), len(seqs)), **loc))
            return
        seq = seqs[0]
        if (seq, RDF.type, RDF.Seq) not in graph:
            fails.append(failure("rdf.values", "value node of %r is not an rdf:Seq" % p.name, **loc))
        members = {}
        for pr, o in graph.predicate_objects(seq):
            s_ = str(pr)
            if s_.startswith(str(RDF) + "_"):
                members[int(s_[len(str(RDF)) + 1:])] = o
        if sorted(members) != list(range(1, len(vals) + 1)):
            fails.append(failure("rdf.values", "Property %r: sequence members are numbered %r for %d values"
                                 % (p.name, sorted(members), len(vals)), **loc))
            return
        for i, v in enumerate(vals):
            got = lit_value(members[i + 1])
            if not same_value(v, got):
                fails.append(failure("rdf.values", "Property %r (%s): value #%d is %r, sequence member %r"
                                     % (p.name, p.dtype, i + 1, v, got), dtype=str(p.dtype),
                                     is_tuple=isinstance(v, list), float_shortened=shortened(v, got), **loc))
                if not shortened(v, got):
                    break

    def check_repo(node, obj, what):
        terms = list(graph.objects(node, U("hasTerminology")))
        url = obj.repository
        if not url:
            if terms:
                fails.append(failure("rdf.repository", "%s without repository has a hasTerminology edge" % what,
                                     **loc))
            return
        if len(terms) != 1:
            fails.append(failure("rdf.repository", "%s with repository %r has %d hasTerminology edges"
                                 % (what, url, len(terms)), **loc))
            return
        types = set(graph.objects(terms[0], RDF.type))
        if types != {rdflib.URIRef(url)}:
            fails.append(failure("rdf.repository", "%s with repository %r is linked to a terminology node "
                                 "typed %r" % (what, url, sorted(map(str, types))), **loc))
        if (hub_node, U("hasTerminology"), terms[0]) not in graph:
            fails.append(failure("rdf.repository", "the terminology node of %s is not linked to the Hub"
                                 % what, **loc))

    hub_node = hub
    all_repos = set()
    for d in docs:
        check_repo(U(d.id), d, "Document")
        if d.repository:
            all_repos.add(d.repository)
        for s_ in d.itersections():
            check_repo(U(s_.id), s_, "Section %r" % s_.name)
            if s_.repository:
                all_repos.add(s_.repository)
    if hub_node is not None:
        hub_terms = set(graph.objects(hub_node, U("hasTerminology")))
        if len(hub_terms) != len(all_repos):
            fails.append(failure("rdf.repository", "the Hub links %d terminology nodes for %d distinct "
                                 "repository urls" % (len(hub_terms), len(all_repos)), **loc))

    for d in docs:
        node = U(d.id)
        if set(graph.objects(node, RDF.type)) != {U("Document")}:
            fails.append(failure("rdf.type", "Document node is not typed odml:Document", objkind="doc", **loc))
        check_attrs(node, d, DOC_PRED, "Document")
        if set(graph.objects(node, U("hasSection"))) != {U(s.id) for s in list.__iter__(d.sections)}:
            fails.append(failure("rdf.containment", "Document: hasSection edges do not equal its Sections",
                                 **loc))
        for s in list.__iter__(d.sections):
            check_sec(s)


RT_ATTRS = {"name", "type", "definition", "reference", "unit", "uncertainty", "value_origin", "dtype", "values",
            "author", "date", "version"}


def body(case):
    fmt = case["format"]
    docs = [build.build_doc(prepare(d, k, case["seed"], case["sub_types"] if k == 0 else []))
            for k, d in enumerate(case["docs"])]
    writer = case["writer"]
    if writer in ("odmlwriter_str", "odmlwriter_file", "odml_save"):
        docs = docs[:1]
    sub = case["subclassing"]
    kw = {}
    table = None
    if writer in ("get_rdf_str", "write_file"):
        if sub in ("off", "off+custom"):
            kw["rdf_subclassing"] = False
        if sub in ("custom", "off+custom"):
            kw["custom_subclasses"] = CUSTOM
    loc = dict(format=fmt, writer=writer, subclassing=sub)
    fails = []
    classes = ["format:" + fmt, "writer:" + writer, "reader:" + case["reader"], "subclassing:" + sub,
               "docs:%d" % len(docs)]
    d = env.fresh_dir("c10")
    prior = case.get("prior_export")
    if prior:
        classes.append("prior_export:" + prior)
        pdoc = odml.Document()
        for t in ("custom/type", "cell", "other/type"):
            odml.Section(name=t.replace("/", "-"), type=t, parent=pdoc)
        with env.quiet_warnings():
            RDFWriter([pdoc], **({"custom_subclasses": dict(PRIOR_CUSTOM)} if prior == "custom" else {})) \
                .get_rdf_str("turtle")
    try:
        ext = {"xml": ".rdf", "nt": ".nt", "json-ld": ".jsonld", "turtle": ".ttl", "n3": ".n3"}[fmt]
        path = os.path.join(d, "out" + ext)
        try:
            if writer == "get_rdf_str":
                w = RDFWriter(docs, **kw)
                text = w.get_rdf_str(fmt)
                table = prescribed_table(sub)
            elif writer == "write_file":
                w = RDFWriter(docs, **kw)
                w.write_file(path, fmt)
                table = prescribed_table(sub)
                with open(path, encoding="utf-8") as fh:
                    text = fh.read()
            else:
                table = prescribed_table("on")
                if writer == "odmlwriter_str":
                    text = ODMLWriter("RDF").to_string(docs[0], rdf_format=fmt)
                elif writer == "odmlwriter_file":
                    ODMLWriter("RDF").write_file(docs[0], path, rdf_format=fmt)
                    with open(path, encoding="utf-8") as fh:
                        text = fh.read()
                else:
                    odml.save(docs[0], path, "RDF", rdf_format=fmt)
                    with open(path, encoding="utf-8") as fh:
                        text = fh.read()
        except Exception as exc:
            fails.append(failure("rdf.write_raised", "RDF export (%s, %s) raised %s: %s"
                                 % (writer, fmt, type(exc).__name__, str(exc)[:150]), **loc))
            return nontrivial(case), classes, fails
        if not isinstance(text, str):
            text = text.decode("utf-8")
        graph = rdflib.Graph()
        try:
            graph.parse(data=text, format=fmt)
        except Exception as exc:
            fails.append(failure("rdf.unparsable", "rdflib cannot parse the %s output: %s" % (fmt, str(exc)[:150]),
                                 **loc))
            return nontrivial(case), classes, fails
        check_shape(graph, docs, table, fails, loc)
        # import
        try:
            reader = case["reader"]
            if reader.endswith("file"):
                if not os.path.exists(path):
                    with open(path, "w", encoding="utf-8") as fh:
                        fh.write(text)
                if reader.startswith("rdfreader"):
                    back = RDFReader().from_file(path, fmt)
                else:
                    back = ODMLReader("RDF", show_warnings=False).from_file(path, fmt)
            elif reader.startswith("rdfreader"):
                back = RDFReader().from_string(text, fmt)
            else:
                back = ODMLReader("RDF", show_warnings=False).from_string(text, fmt)
        except Exception as exc:
            fails.append(failure("rdf.import_raised", "importing the exported %s graph raised %s: %s"
                                 % (fmt, type(exc).__name__, str(exc)[:150]), **loc))
            return nontrivial(case), classes, fails[:6]
        if len(back) != len(docs):
            fails.append(failure("rdf.import_count", "exported %d documents, imported %d" % (len(docs), len(back)),
                                 **loc))
        byid = {b.id: b for b in back}
        for doc in docs:
            got = byid.get(doc.id)
            if got is None:
                fails.append(failure("rdf.import_ids", "document %s is missing from the import" % doc.id, **loc))
                continue
            a = snap.normalize(snap.content(doc), order=False, attrs=RT_ATTRS, merged=False)
            b = snap.normalize(snap.content(got), order=False, attrs=RT_ATTRS, merged=False)
            for pth, key, x, y, k in snap.diff(a, b, limit=3):
                l2 = dict(loc, attr=key, objkind=k)
                if key == "uncertainty":
                    l2["number_became_its_text"] = S.is_text_of_number(x, y)
                l2["float_shortened"] = roundtrip_shortened(key, x, y)
                fails.append(failure("rdf.roundtrip", "%s %s: exported %r, imported %r" % (pth, key, x, y), **l2))
        return nontrivial(case), classes, fails[:8]
    finally:
        env.rm(d)


def nontrivial(case):
    for spec in case["docs"]:
        for p in S.iter_props(spec):
            if len(p["values"]) >= 2:
                if len(case["docs"]) >= 2:
                    return True
                for v in p["values"]:
                    if isinstance(v, float) and len(repr(v)) >= 17:
                        return True
                    if isinstance(v, int) and not isinstance(v, bool) and abs(v) > 2 ** 63:
                        return True
                    if isinstance(v, str) and S.classify_text(v) - {"plain", "empty"}:
                        return True
    return False


def plan(tier):
    if tier == "quick":
        return [{"name": "rdf%d" % i, "n": 120, "depth": 2} for i in range(16)] + \
            [{"name": "rdf_ascii_locale", "n": 80, "depth": 2, "env": "ascii_locale"}]
    return [{"name": "rdf%d" % i, "n": 4000, "depth": 3} for i in range(16)] + \
        [{"name": "rdf_ascii_locale%d" % i, "n": 1500, "depth": 3, "env": "ascii_locale"} for i in range(2)]


def run(shard, seed, ctx):
    hyp.drive(ctx, "rdf", hyp.in_env(cases(shard["depth"]), shard), body, shard["n"], seed, shrink_budget=150)


def replay(kind, case):
    return body(case)[2]
