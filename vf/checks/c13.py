"""C13 - merging one Section into another is complete, conservative and all-or-nothing."""
from hypothesis import strategies as st

import odml

from .. import env, hyp, snap
from ..core import failure

PROPERTY = "C13"
LEVEL = "exploration"
EXHAUSTIVE = None
RULE = ("pairs of Section trees built from a common generated skeleton with per-node decisions (only in src, "
        "only in dest, in both with same / different type) and per common Property controlled dtypes, units, "
        "uncertainties, text attributes (unset / only one side / equal / differing in case and whitespace only "
        "/ conflicting) and values (disjoint, overlapping, convertible text, unconvertible, multi-line text) x "
        "strict on/off; plus a complete placement table: one conflict of each kind planted at every node "
        "position of a fixed 7-Section / 14-Property skeleton. Oracle: independent completeness / "
        "conservativeness predicates on success, ValueError for every planted strict conflict, identity "
        "snapshot of dest unchanged after any exception, src unchanged always. Non-trivial = >= 2 common nodes "
        "and (a conflict below the first sibling or >= 1 value gained)")
ASSUMPTIONS = ["membership of gained values is checked, not multiplicity",
               "text attributes differing in case/whitespace only: either outcome is accepted in strict mode",
               "a same-named Section of another type cannot be added next to the existing one: the merge must "
               "be refused (and change nothing) or produce a same-named same-typed child"]

ATTR_MODES = ["none", "d", "s", "eq", "ws", "conflict"]
TEXT_ATTRS = ["definition", "reference", "value_origin"]


def attr_pair(mode, base):
    """-> (dest value, src value)"""
    if mode == "none":
        return None, None
    if mode == "d":
        return base, None
    if mode == "s":
        return None, base
    if mode == "eq":
        return base, base
    if mode == "ws":
        return base, "  " + base.upper().replace(" ", "   ") + " "
    return base, base + " but different"


VALUE_MODES = ["same", "disjoint", "overlap", "src_empty", "dest_empty", "text_convertible", "unconvertible",
               "float_to_int", "int_to_string", "multiline", "dates", "unconvertible_dest_empty", "tuples",
               "float_inf_to_int", "float_nan_to_int", "huge_int_to_float", "dest_empty_text_to_int",
               "dest_empty_int_to_float", "dest_empty_text_to_date"]


def values_for(mode):
    """-> (dest dtype, dest values, src dtype, src values, convertible?)"""
    if mode == "same":
        return "int", [1, 2], "int", [1, 2], True
    if mode == "disjoint":
        return "int", [1, 2], "int", [3, 4], True
    if mode == "overlap":
        return "string", ["a", "b"], "string", ["b", "c"], True
    if mode == "src_empty":
        return "int", [1], "int", [], True
    if mode == "dest_empty":
        return "int", [], "int", [5, 6], True
    if mode == "text_convertible":
        return "int", [1], "string", ["2", "7"], True
    if mode == "unconvertible":
        return "int", [1], "string", ["abc"], False
    if mode == "tuples":
        return "2-tuple", ["(1;2)"], "2-tuple", ["(1;2)", "(3;4)"], True
    if mode == "unconvertible_dest_empty":
        return "int", [], "string", ["abc"], False
    if mode == "float_to_int":
        return "int", [1], "float", [2.0, 3.5], True
    # numbers that no number of the other kind can hold
    # the destination is typed but still empty: what it gains is converted like any other gain
    if mode == "dest_empty_text_to_int":
        return "int", [], "string", ["2", "7"], True
    if mode == "dest_empty_int_to_float":
        return "float", [], "int", [1, 2], True
    if mode == "dest_empty_text_to_date":
        return "date", [], "string", ["2020-01-01"], True
    if mode == "float_inf_to_int":
        return "int", [1], "float", [2.0, float("inf")], False
    if mode == "float_nan_to_int":
        return "int", [1], "float", [float("nan")], False
    if mode == "huge_int_to_float":
        return "float", [1.5], "int", [2, 2 ** 1024], False
    if mode == "int_to_string":
        return "string", ["x"], "int", [4, 5], True
    if mode == "multiline":
        return "string", ["x"], "string", ["line1\nline2", "y"], True
    if mode == "dates":
        return "date", ["2020-01-01"], "date", ["2020-01-01", "2021-02-03"], True
    raise ValueError(mode)


def convert(v, dest_dtype):
    import datetime as dt
    if dest_dtype.endswith("-tuple"):
        return v if isinstance(v, list) else [x.strip() for x in v.strip()[1:-1].split(";")]
    if dest_dtype == "int":
        return int(float(v))
    if dest_dtype == "float":
        return float(v)
    if dest_dtype == "string":
        return str(v)
    if dest_dtype == "date":
        return v if isinstance(v, dt.date) else dt.date.fromisoformat(v)
    return v


PROP = st.fixed_dictionaries({
    "where": st.sampled_from(["both", "both", "both", "src", "dest"]),
    "values": st.sampled_from(VALUE_MODES),
    "unit": st.sampled_from(["none", "d", "s", "eq", "conflict", "eq", "none", "case"]),
    "unc": st.sampled_from(["none", "d", "s", "eq", "conflict", "none", "d0", "d0_conflict", "eq0"]),
    "definition": st.sampled_from(ATTR_MODES + ["none", "eq"]),
    "reference": st.sampled_from(ATTR_MODES + ["none"]),
    "value_origin": st.sampled_from(ATTR_MODES + ["none"]),
})


def node_strategy(depth):
    base = {
        "where": st.sampled_from(["both", "both", "both", "src", "dest", "both_difftype", "both_casetype"]),
        "twin_prop": st.booleans(),
        "definition": st.sampled_from(ATTR_MODES + ["none", "s"]),
        "reference": st.sampled_from(ATTR_MODES + ["none", "s"]),
        "props": st.lists(PROP, min_size=0, max_size=3),
    }
    if depth <= 0:
        base["children"] = st.just([])
    else:
        base["children"] = st.lists(node_strategy(depth - 1), min_size=0, max_size=3)
    return st.fixed_dictionaries(base)


def cases(depth):
    return st.fixed_dictionaries({"root": node_strategy(depth), "strict": st.booleans(),
                                  "second": st.booleans()})


# ------------------------------------------------------------------------------------

def build_pair(root):
    """Build (dest, src) root Sections; returns also the list of planted facts."""
    facts = {"conflicts": [], "ws_only": 0, "common": 0, "unconvertible": [], "difftype": [], "gain": 0,
             "multiline_first": []}

    def mk_prop(spec, idx, dsec, ssec, path, strict_conf):
        name = "p%d" % idx
        ddt, dvals, sdt, svals, ok = values_for(spec["values"])
        if spec["unit"] == "case":
            u_d, u_s = "mV", ["MV", "mv", "m V", " mV"][idx % 4]
        else:
            u_d, u_s = attr_pair(spec["unit"], "mV")
        unc_d, unc_s = {"none": (None, None), "d": (0.5, None), "s": (None, 0.5), "eq": (0.5, 0.5),
                        "conflict": (0.5, 0.75), "d0": (0.0, None), "d0_conflict": (0, 0.5),
                        "eq0": (0, 0.0)}[spec["unc"]]
        kw_d, kw_s = {}, {}
        for a in TEXT_ATTRS:
            kw_d[a], kw_s[a] = attr_pair(spec[a], "the %s of %s" % (a, name))
        where = spec["where"]
        if where in ("both", "dest") and dsec is not None:
            odml.Property(name=name, values=dvals, dtype=ddt, unit=u_d, uncertainty=unc_d, parent=dsec, **kw_d)
        if where in ("both", "src") and ssec is not None:
            odml.Property(name=name, values=svals, dtype=sdt, unit=u_s, uncertainty=unc_s, parent=ssec, **kw_s)
        if where == "both" and dsec is not None and ssec is not None:
            facts["common"] += 1
            here = path + ":" + name
            if not ok:
                facts["unconvertible"].append(here)
            if ddt != sdt and dvals is not None and svals is not None:
                facts["conflicts"].append((here, "dtype"))
            if spec["unit"] in ("conflict", "case"):
                facts["conflicts"].append((here, "unit"))
            if spec["unc"] in ("conflict", "d0_conflict"):
                facts["conflicts"].append((here, "uncertainty"))
            for a in TEXT_ATTRS:
                if spec[a] == "conflict":
                    facts["conflicts"].append((here, a))
                if spec[a] == "ws":
                    facts["ws_only"] += 1
            if spec["values"] == "multiline":
                facts["multiline_first"].append(here)
            if ok and any(convert(v, ddt) not in [convert(x, ddt) for x in dvals] for v in svals):
                facts["gain"] += 1

    def mk(node, idx, dpar, spar, path):
        name = "s%d" % idx
        where = node["where"]
        here = path + "/" + name
        d_def, s_def = attr_pair(node["definition"], "definition of " + name)
        d_ref, s_ref = attr_pair(node["reference"], "reference of " + name)
        dsec = ssec = None
        if where in ("both", "dest", "both_difftype", "both_casetype") and dpar is not None:
            dsec = odml.Section(name=name, type="Type/T" if where == "both_casetype" else "t",
                                definition=d_def, reference=d_ref, parent=dpar)
            if node.get("twin_prop") and snap.kind(dpar) == "sec":
                # a Property of the destination that carries the name of this Section
                try:
                    odml.Property(name=name, values=["twin"], parent=dpar)
                except Exception:
                    pass
        if where in ("both", "src", "both_difftype", "both_casetype") and spar is not None:
            stype = {"both_difftype": "other", "both_casetype": "type/t"}.get(where, "t")
            ssec = odml.Section(name=name, type=stype, definition=s_def, reference=s_ref, parent=spar)
        if dsec is not None and ssec is not None:
            if where in ("both_difftype", "both_casetype"):
                facts["difftype"].append(here)
            else:
                facts["common"] += 1
                if node["definition"] == "conflict":
                    facts["conflicts"].append((here, "definition"))
                if node["reference"] == "conflict":
                    facts["conflicts"].append((here, "reference"))
                if "ws" in (node["definition"], node["reference"]):
                    facts["ws_only"] += 1
        merged_pair = dsec is not None and ssec is not None and where not in ("both_difftype", "both_casetype")
        for i, p in enumerate(node["props"]):
            if merged_pair:
                mk_prop(p, i, dsec, ssec, here, None)
            else:
                if dsec is not None:
                    mk_prop(dict(p, where="dest"), i, dsec, None, here, None)
                if ssec is not None:
                    mk_prop(dict(p, where="src"), i, None, ssec, here, None)
        for i, ch in enumerate(node["children"]):
            if merged_pair:
                mk(ch, i, dsec, ssec, here)
            else:
                # below a non-common node everything belongs to one side only
                if dsec is not None:
                    mk(dict(ch, where="dest"), i, dsec, None, here)
                if ssec is not None:
                    mk(dict(ch, where="src"), i, None, ssec, here)
    dest = odml.Section(name="root", type="t")
    src = odml.Section(name="root", type="t")
    d_def, s_def = attr_pair(root["definition"], "definition of root")
    d_ref, s_ref = attr_pair(root["reference"], "reference of root")
    dest.definition, src.definition = d_def, s_def
    dest.reference, src.reference = d_ref, s_ref
    if root["definition"] == "conflict":
        facts["conflicts"].append(("/root", "definition"))
    if root["reference"] == "conflict":
        facts["conflicts"].append(("/root", "reference"))
    if "ws" in (root["definition"], root["reference"]):
        facts["ws_only"] += 1
    for i, p in enumerate(root["props"]):
        mk_prop(p, i, dest, src, "/root", None)
    for i, ch in enumerate(root["children"]):
        mk(ch, i, dest, src, "/root")
    return dest, src, facts


def norm_text(s):
    return "".join(s.split()).lower()


def check_merged(dest, src, dest_before, strict, fails, path="/root"):
    """Completeness / conservativeness of dest (after) against src and dest_before (content images)."""
    dprops = {p.name: p for p in list.__iter__(dest.properties)}
    dsecs = {s.name: s for s in list.__iter__(dest.sections)}
    before_props = {p["name"][1]: p for p in dest_before["props"]}
    before_secs = {s["name"][1]: s for s in dest_before["sections"]}
    # section level attributes: unset filled, set kept
    for a in ("definition", "reference"):
        old = dest_before[a]
        sval = getattr(src, a)
        now = getattr(dest, a)
        if old != ["none"]:
            if snap.tv(now) != old:
                fails.append(failure("merge.overwrote", "%s: set %s %r became %r" % (path, a, old, now),
                                     attr=a, level="section"))
        elif sval is not None and now != sval:
            fails.append(failure("merge.not_filled", "%s: unset %s not filled from src (%r), is %r"
                                 % (path, a, sval, now), attr=a, level="section"))
    for sp in list.__iter__(src.properties):
        mine = dprops.get(sp.name)
        if mine is None:
            fails.append(failure("merge.incomplete", "%s: src Property %r has no counterpart in dest"
                                 % (path, sp.name), level="property"))
            continue
        old = before_props.get(sp.name)
        if old is None:
            # a copy: content equal to the src Property, not the same object
            if mine is sp:
                fails.append(failure("merge.shared", "%s: dest received the src Property object itself" % path))
            a = snap.normalize(snap.content(sp), ids=False)
            b = snap.normalize(snap.content(mine), ids=False)
            if a != b:
                fails.append(failure("merge.copy_differs", "%s:%s copied Property differs from src"
                                     % (path, sp.name), level="property"))
            continue
        old_vals = old["values"]
        now_vals = [snap.tv(v) for v in mine.values]
        if now_vals[:len(old_vals)] != old_vals:
            fails.append(failure("merge.values_lost", "%s:%s own values %r are no longer a prefix of %r"
                                 % (path, sp.name, old_vals, now_vals), level="property"))
        ddt = mine.dtype
        for v in sp.values:
            try:
                cv = convert(v, str(ddt))
            except Exception:
                cv = v
            if snap.tv(cv) not in now_vals and snap.tv(v) not in now_vals:
                fails.append(failure("merge.value_missing", "%s:%s src value %r (as %r) is missing from %r"
                                     % (path, sp.name, v, cv, mine.values), level="property"))
        if snap.tv(mine.dtype) != old["dtype"] and old["dtype"] != ["none"]:
            fails.append(failure("merge.overwrote", "%s:%s dtype changed" % (path, sp.name), attr="dtype",
                                 level="property"))
        # gained values are converted to the destination's own dtype
        from ..value_engine import conforms
        if mine.dtype is not None:
            odd = [v for v in mine.values if not conforms(v, mine.dtype)]
            if odd:
                fails.append(failure("merge.value_not_converted", "%s:%s holds %r (%s) although its dtype is %s"
                                     % (path, sp.name, odd[0], type(odd[0]).__name__, mine.dtype),
                                     level="property", dtype=str(mine.dtype)))
        for a in ("definition", "reference", "unit", "uncertainty", "value_origin"):
            o = old[a]
            sval = getattr(sp, a)
            now = getattr(mine, a)
            if o != ["none"]:
                if snap.tv(now) != o:
                    fails.append(failure("merge.overwrote", "%s:%s set %s %r became %r"
                                         % (path, sp.name, a, o, now), attr=a, level="property"))
            elif sval is not None and now != sval:
                fails.append(failure("merge.not_filled", "%s:%s unset %s not filled from src (%r), is %r"
                                     % (path, sp.name, a, sval, now), attr=a, level="property"))
    for ss in list.__iter__(src.sections):
        mine = dsecs.get(ss.name)
        if mine is None or mine.type != ss.type:
            fails.append(failure("merge.incomplete", "%s: src Section %r [%s] has no same-named, same-typed "
                                 "counterpart in dest" % (path, ss.name, ss.type), level="section"))
            continue
        old = before_secs.get(ss.name)
        if old is None:
            if mine is ss:
                fails.append(failure("merge.shared", "%s: dest received the src Section object itself" % path))
            a = snap.normalize(snap.content(ss), ids=False, merged=False)
            b = snap.normalize(snap.content(mine), ids=False, merged=False)
            if a != b:
                fails.append(failure("merge.copy_differs", "%s/%s copied Section differs from src"
                                     % (path, ss.name), level="section"))
            continue
        check_merged(mine, ss, old, strict, fails, path + "/" + ss.name)
    # dest-only children unchanged
    src_p = {p.name for p in list.__iter__(src.properties)}
    src_s = {s.name for s in list.__iter__(src.sections)}
    for name, old in before_props.items():
        if name not in src_p:
            now = dprops.get(name)
            if now is None or snap.normalize(snap.content(now)) != snap.normalize(old):
                fails.append(failure("merge.dest_only_changed", "%s:%s exists only in dest but changed"
                                     % (path, name), level="property"))
    for name, old in before_secs.items():
        if name not in src_s:
            now = dsecs.get(name)
            if now is None or snap.normalize(snap.content(now), merged=False) != snap.normalize(old, merged=False):
                fails.append(failure("merge.dest_only_changed", "%s/%s exists only in dest but changed"
                                     % (path, name), level="section"))
    # nothing invented
    for name in dprops:
        if name not in before_props and name not in src_p:
            fails.append(failure("merge.invented", "%s:%s came from nowhere" % (path, name)))
    for name in dsecs:
        if name not in before_secs and name not in src_s:
            fails.append(failure("merge.invented", "%s/%s came from nowhere" % (path, name)))


def run_merge(dest, src, facts, strict, tag=""):
    fails = []
    duni = snap.reachable([dest])
    suni = snap.reachable([src])
    d_before_id = snap.identity(duni)
    s_before_id = snap.identity(suni)
    d_before = snap.content(dest)
    raised = None
    try:
        dest.merge(src, strict=strict)
    except Exception as exc:
        raised = exc
    s_after = snap.identity(suni)
    if snap.identity_diff(s_before_id, s_after):
        d = snap.identity_diff(s_before_id, s_after)[0]
        fails.append(failure("merge.src_changed", "%ssrc changed: %s %s %r -> %r" % (tag, d[1], d[2], d[3], d[4])))
    must_raise = bool(facts["unconvertible"]) or bool(facts["difftype"]) or (strict and bool(facts["conflicts"]))
    if raised is not None:
        dd = snap.identity_diff(d_before_id, snap.identity(duni))
        extra = len(snap.reachable([dest])) - len(duni)
        if dd or extra:
            what = ("%s %s %r -> %r" % (dd[0][1], dd[0][2], dd[0][3], dd[0][4])) if dd else \
                "%d new objects" % extra
            fails.append(failure("merge.partial", "%smerge(strict=%s) raised %s(%s) but dest changed: %s"
                                 % (tag, strict, type(raised).__name__, str(raised)[:70], what), strict=strict,
                                 exc=type(raised).__name__, multiline=bool(facts["multiline_first"]),
                                 difftype=bool(facts["difftype"])))
        if strict and facts["conflicts"] and not isinstance(raised, ValueError):
            fails.append(failure("merge.exception_type", "%sstrict conflict %r raised %s instead of ValueError"
                                 % (tag, facts["conflicts"][0], type(raised).__name__)))
        if not must_raise and not (strict and facts["ws_only"]) and \
                not (strict and facts["multiline_first"]):
            fails.append(failure("merge.refused_mergeable", "%smerge(strict=%s) of conflict-free trees raised "
                                 "%s: %s" % (tag, strict, type(raised).__name__, str(raised)[:100]),
                                 strict=strict))
    else:
        if must_raise:
            why = facts["unconvertible"][:1] or facts["difftype"][:1] or facts["conflicts"][:1]
            fails.append(failure("merge.conflict_accepted", "%smerge(strict=%s) succeeded although %r was "
                                 "planted" % (tag, strict, why), strict=strict,
                                 kind=("unconvertible" if facts["unconvertible"] else
                                       "difftype" if facts["difftype"] else facts["conflicts"][0][1])))
        else:
            check_merged(dest, src, d_before, strict, fails)
    return raised, fails


def second_merge(dest, strict, fails):
    """A further merge into the same destination keeps what the first one brought."""
    mid = snap.normalize(snap.content(dest), merged=False)
    extra = odml.Section(name=dest.name, type=dest.type)
    odml.Property(name="second-merge-p", values=[7], parent=extra)
    sub = odml.Section(name="second-merge-s", type="t", parent=extra)
    odml.Property(name="q", values=["x"], parent=sub)
    try:
        dest.merge(extra, strict=strict)
    except Exception as exc:
        fails.append(failure("merge.refused_mergeable", "a second, conflict-free merge into the same Section "
                             "raised %s: %s" % (type(exc).__name__, str(exc)[:100]), strict=strict,
                             second=True))
        return
    # the same source once more, after it has grown: the new content is taken over as well
    grown = odml.Property(name="second-merge-late", values=["late"], parent=extra)
    extra.properties["second-merge-p"].append(8)
    odml.Property(name="q2", values=[1], parent=sub)
    try:
        dest.merge(extra, strict=strict)
        have_p = "second-merge-late" in dest.properties and 8 in dest.properties["second-merge-p"].values
        have_s = "q2" in dest.sections["second-merge-s"].properties
        if not (have_p and have_s):
            fails.append(failure("merge.missing_child", "merging the same source again after it had grown did "
                                 "not bring the new content (Property / value: %s, below the sub-Section: %s)"
                                 % (have_p, have_s), second=True, again=True))
    except Exception as exc:
        fails.append(failure("merge.refused_mergeable", "merging the same, grown source again raised %s: %s"
                             % (type(exc).__name__, str(exc)[:100]), strict=strict, second=True, again=True))
        return
    end = snap.content(dest)

    def nm(c):
        return c["name"][1] if len(c["name"]) > 1 else None
    got = {nm(c) for c in end.get("props", [])} | {nm(c) for c in end.get("sections", [])}
    if not {"second-merge-p", "second-merge-s"} <= got:
        fails.append(failure("merge.missing_child", "the second merge did not bring its children", second=True))
    end["props"] = [c for c in end.get("props", []) if nm(c) not in ("second-merge-p", "second-merge-late")]
    end["sections"] = [c for c in end.get("sections", []) if nm(c) != "second-merge-s"]
    end = snap.normalize(end, merged=False)
    if end != mid:
        d = snap.diff(mid, end, limit=1)
        fails.append(failure("merge.second_undoes_first", "after a second merge into the same Section the result "
                             "of the first one changed: %r" % (d[:1],), second=True))


def body(case):
    dest, src, facts = build_pair(case["root"])
    raised, fails = run_merge(dest, src, facts, case["strict"])
    classes = ["strict:%s" % case["strict"], "outcome:" + ("raised" if raised is not None else "merged")]
    if raised is None and not fails and case.get("second"):
        second_merge(dest, case["strict"], fails)
        classes.append("second_merge")
    if facts["conflicts"]:
        classes.append("conflict:" + facts["conflicts"][0][1])
    if facts["unconvertible"]:
        classes.append("unconvertible")
    if facts["difftype"]:
        classes.append("same_name_other_type")
    deep_conflict = any(p.count("/") >= 2 or not p.endswith("0") for p, _ in facts["conflicts"])
    nt = facts["common"] >= 2 and (deep_conflict or facts["gain"] >= 1)
    return nt, classes, fails[:6]


# ------------------------------------------------------------------------------------
# complete placement table on a fixed skeleton

def skeleton_node(depth, fan=2):
    node = {"where": "both", "definition": "eq", "reference": "s", "twin_prop": True,
            "props": [{"where": "both", "values": "disjoint", "unit": "eq", "unc": "s", "definition": "s",
                       "reference": "eq", "value_origin": "s"},
                      {"where": "both", "values": "overlap", "unit": "s", "unc": "eq", "definition": "eq",
                       "reference": "s", "value_origin": "eq"},
                      {"where": "src", "values": "same", "unit": "s", "unc": "none", "definition": "s",
                       "reference": "none", "value_origin": "none"}],
            "children": []}
    if depth > 0:
        node["children"] = [skeleton_node(depth - 1, fan) for _ in range(fan)]
        node["children"].append({"where": "src", "definition": "s", "reference": "none", "props": [],
                                 "children": []})
    return node


PLANTS = [("prop", "values", "unconvertible"), ("prop", "unit", "conflict"), ("prop", "unc", "conflict"),
          ("prop", "definition", "conflict"), ("prop", "reference", "conflict"),
          ("prop", "value_origin", "conflict"), ("prop", "values", "text_convertible"),
          ("prop", "values", "multiline"), ("prop", "values", "unconvertible_dest_empty"),
          ("prop", "unc", "d0_conflict"), ("prop", "values", "float_inf_to_int"),
          ("prop", "values", "huge_int_to_float"),
          ("sec", "definition", "conflict"), ("sec", "reference", "conflict"), ("sec", "where", "both_difftype"),
          ("sec", "where", "both_casetype"), ("prop", "unit", "case")]


def positions(node, path=()):
    out = [("sec", path)]
    for i, p in enumerate(node["props"]):
        if p["where"] == "both":
            out.append(("prop", path + (("p", i),)))
    for i, c in enumerate(node["children"]):
        if c["where"] == "both":
            out.extend(positions(c, path + (("c", i),)))
    return out


def plant(root, pos, key, value):
    import copy
    root = copy.deepcopy(root)
    node = root
    for kind, i in pos:
        if kind == "c":
            node = node["children"][i]
        else:
            node = node["props"][i]
    node[key] = value
    return root


def table_cases():
    skel = skeleton_node(2)
    out = []
    for kind, pos in positions(skel):
        for pk, key, value in PLANTS:
            if pk != kind:
                continue
            if kind == "sec" and not pos and key == "where":
                continue
            for strict in (True, False):
                out.append({"pos": [list(p) for p in pos], "key": key, "value": value, "strict": strict})
    return out


def table_body(case):
    skel = skeleton_node(2)
    root = plant(skel, [tuple(p) for p in case["pos"]], case["key"], case["value"])
    dest, src, facts = build_pair(root)
    raised, fails = run_merge(dest, src, facts, case["strict"], tag="placement %r %s=%s: "
                              % (case["pos"], case["key"], case["value"]))
    return raised, fails


def plan(tier):
    shards = [{"name": "table%d" % i, "type": "table", "i": i, "of": 4} for i in range(4)]
    n, depth = (500, 2) if tier == "quick" else (20000, 3)
    shards += [{"name": "pairs%d" % i, "type": "pairs", "n": n, "depth": depth} for i in range(12)]
    return shards


def run(shard, seed, ctx):
    if shard["type"] == "table":
        for j, case in enumerate(table_cases()):
            if j % shard["of"] != shard["i"]:
                continue
            try:
                with env.watchdog():
                    raised, fails = table_body(case)
            except env.CaseHang:
                raised, fails = None, [failure("hang.no_return", "merge did not return within %d s"
                                               % env.HANG_SECONDS)]
            deep = len(case["pos"]) >= 2
            unmatched = ctx.case(case, deep, ["table:%s=%s" % (case["key"], case["value"]),
                                              "table:" + ("raised" if raised is not None else "merged")],
                                 fails[:4], kind="table")
            if unmatched:
                ctx.violation("table", case, unmatched)
    else:
        hyp.drive(ctx, "pairs", cases(shard["depth"]), body, shard["n"], seed)


def replay(kind, case):
    if kind == "table":
        return table_body(case)[1][:6]
    return body(case)[2]
