"""C02 - JSON and YAML save/load are lossless and keep the odML 1.1 layout."""
import copy
import json
import os

import yaml
from hypothesis import strategies as st

import odml
from odml.tools.dict_parser import DictReader, DictWriter
from odml.tools.odmlparser import ODMLReader, ODMLWriter
from odml.tools.xmlparser import XMLReader, XMLWriter

from .. import build, env, hyp, snap, spec as S
from ..core import failure
from ..model import dictfmt

PROPERTY = "C02"
LEVEL = "exploration"
RULE = ("Hypothesis document specs (generator of C01 plus YAML/JSON look-alike strings such as 'yes', 'null', "
        "'1e3', '2020-01-01', surrounding whitespace, and numerically falsy attributes such as an uncertainty "
        "of 0) x {JSON, YAML} x entry point (to_string/from_string, write_file/from_file, odml.save/load, "
        "DictWriter.to_dict -> DictReader.to_odml) x strict/lenient dict reader. Oracles: typed content "
        "snapshot equal without any trimming; written text parsed with json/yaml directly has exactly the "
        "odML 1.1 layout; a structure produced by an independent emitter (other key order, flow style, native "
        "or text dates) loads to the document it describes; JSON-loaded == YAML-loaded == XML-loaded up to "
        "XML's trimming. Non-trivial as C01 or the document contains a look-alike string / falsy attribute")
ASSUMPTIONS = ["uncertainty is compared by numeric value", "n-tuple members are free of ';', '(' and ')'"]

ENTRIES = ["string", "file", "saveload", "dict_strict", "dict_lenient"]


def cases(max_depth):
    return st.fixed_dictionaries({
        # lone surrogates (text JSON and YAML can hold, XML cannot) in a quarter of the documents
        "doc": st.one_of([S.doc_spec(max_depth=max_depth, dtype_members=True)] * 3 +
                         [S.doc_spec(max_depth=max_depth, dtype_members=True,
                                     text_classes=S.TEXT_CLASS_NAMES + ["surrogate"])]),
        "links": st.lists(st.tuples(st.integers(0, 20), st.integers(0, 20),
                                    st.sampled_from(["link", "link", "include"])).map(list), max_size=2),
        "fmt": st.sampled_from(["JSON", "YAML"]),
        "entry": st.sampled_from(ENTRIES),
        "diff": st.booleans(),
    })


def foreign_cases(max_depth):
    return st.fixed_dictionaries({
        "doc": S.doc_spec(max_depth=max_depth),
        "fmt": st.sampled_from(["JSON", "YAML"]),
        "native_dates": st.booleans(),
        "reverse": st.booleans(),
        "omit_empty": st.booleans(),
        "flow": st.booleans(),
        "via_file": st.booleans(),
        "seed": st.integers(0, 10 ** 6),
    })


def nontrivial(spec):
    props = list(S.iter_props(spec))
    if not any(p["values"] for p in props):
        return False
    classes = S.text_classes_in(spec) - {"plain", "empty"}
    if classes:
        return True
    for p in props:
        if len(p["values"]) >= 2 or p["dtype"].endswith("-tuple") or p.get("val_card") or \
                p.get("uncertainty") in (0, 0.0):
            return True
    return False


def compare(expected_img, loaded, clause, trim=False):
    fails = []
    a = snap.normalize(expected_img, trim=trim)
    b = snap.normalize(snap.content(loaded), trim=trim)
    for path, key, x, y, k in snap.diff(a, b, limit=4):
        loc = {"objkind": k, "attr": key}
        if key == "uncertainty":
            loc["number_became_its_text"] = S.is_text_of_number(x, y)
            loc["falsy_number_lost"] = bool(x and x[0] == "num" and float.fromhex(x[1]) == 0 and y == ["none"])
        fails.append(failure(clause, "%s %s: built %r, loaded %r" % (path, key, x, y), **loc))
    return fails


def roundtrip(doc, fmt, entry, d):
    """Returns (written text or None, loaded document)."""
    path = os.path.join(d, "doc." + fmt.lower())
    if entry == "string":
        text = ODMLWriter(fmt).to_string(doc)
        return text, ODMLReader(fmt, show_warnings=False).from_string(text)
    if entry == "file":
        ODMLWriter(fmt).write_file(doc, path)
        with open(path, encoding="utf-8") as fh:
            text = fh.read()
        return text, ODMLReader(fmt, show_warnings=False).from_file(path)
    if entry == "saveload":
        odml.save(doc, path, fmt)
        with open(path, encoding="utf-8") as fh:
            text = fh.read()
        return text, odml.load(path, fmt, show_warnings=False)
    data = {"Document": DictWriter().to_dict(doc), "odml-version": "1.1"}
    reader = DictReader(show_warnings=False, ignore_errors=(entry == "dict_lenient"))
    loaded = reader.to_odml(data)
    if reader.warnings:
        raise AssertionError("dict reader warned on the writer's own output: %r" % reader.warnings[:2])
    return None, loaded


def has_surrogate(spec):
    return any(0xD800 <= ord(c) <= 0xDFFF for c in json.dumps(spec, ensure_ascii=False))


def body(case):
    spec = S.add_links(copy.deepcopy(case["doc"]), case.get("links", []))
    fmt = case["fmt"]
    doc = build.build_doc(spec)
    expected = snap.content(doc)
    d = env.fresh_dir("c02")
    fails = []
    classes = ["fmt:" + fmt, "entry:" + case["entry"]] + ["text:" + c for c in S.text_classes_in(spec)]
    try:
        try:
            text, loaded = roundtrip(doc, fmt, case["entry"], d)
        except Exception as exc:
            fails.append(failure("dict.roundtrip_raised", "%s %s round trip raised %s: %s"
                                 % (fmt, case["entry"], type(exc).__name__, str(exc)[:200]), fmt=fmt,
                                 exc=type(exc).__name__,
                                 dtype_member=any(p.get("dtype_member") for p in S.iter_props(spec))))
            return nontrivial(spec), classes, fails
        if loaded is None:
            fails.append(failure("dict.roundtrip_none", "%s reader returned None for the writer's output" % fmt,
                                 fmt=fmt))
            return nontrivial(spec), classes, fails
        if text is not None:
            try:
                data = json.loads(text) if fmt == "JSON" else yaml.safe_load(text)
            except Exception as exc:
                data = None
                fails.append(failure("dict.layout", "written %s cannot be parsed by the plain %s library: %s"
                                     % (fmt, fmt, str(exc)[:150]), fmt=fmt))
            if data is not None:
                for p in dictfmt.check_layout(data)[:3]:
                    fails.append(failure("dict.layout", p, fmt=fmt))
        if snap.normalize(snap.content(doc)) != snap.normalize(expected):
            fails.append(failure("dict.write_mutates", "writing changed the document"))
        fails.extend(compare(expected, loaded, "dict.roundtrip"))
        if any(x.get("link") or x.get("include") for x in S.iter_secs(spec)):
            classes.append("stored_link_or_include")
        if has_surrogate(spec):
            classes.append("text:surrogate")
        if case["diff"] and not fails and not has_surrogate(spec):   # XML cannot hold a lone surrogate
            other = "YAML" if fmt == "JSON" else "JSON"
            try:
                t2 = ODMLWriter(other).to_string(doc)
                l2 = ODMLReader(other, show_warnings=False).from_string(t2)
                x = XMLReader(show_warnings=False).from_string(str(XMLWriter(doc)))
            except Exception as exc:
                fails.append(failure("dict.differential_raised", "%s / XML round trip of the same document "
                                     "raised %s: %s" % (other, type(exc).__name__, str(exc)[:150]), fmt=other))
            else:
                fails.extend(compare(snap.content(loaded), l2, "dict.json_vs_yaml"))
                fails.extend(compare(snap.content(loaded), x, "dict.vs_xml", trim=True))
            classes.append("differential")
    finally:
        env.rm(d)
    return nontrivial(spec), classes, fails


def foreign_body(case):
    spec = S.fill_ids(copy.deepcopy(case["doc"]), case["seed"])
    fmt = case["fmt"]
    native = case["native_dates"] and fmt == "YAML"
    data = dictfmt.to_dict(spec, native_dates=native, reverse_keys=case["reverse"],
                           omit_empty=case.get("omit_empty", False))
    problems = dictfmt.check_layout(json.loads(json.dumps(data, default=str)))
    if problems:
        raise RuntimeError("harness emitter violates its own layout: %r" % problems)
    if fmt == "JSON":
        text = json.dumps(data, indent=None if case["flow"] else 2, sort_keys=case["reverse"])
    else:
        # raw NEL / LS / PS are line breaks to a YAML parser: a careful foreign tool escapes them
        raw_ok = not any(c in json.dumps(data, default=str, ensure_ascii=False) for c in u"\x85\u2028\u2029\ufeff")
        text = yaml.safe_dump(data, default_flow_style=case["flow"], allow_unicode=case["reverse"] and raw_ok,
                              sort_keys=not case["reverse"])
    doc = build.build_doc(spec)
    expected = snap.content(doc)
    fails = []
    d = env.fresh_dir("c02f")
    try:
        try:
            if case["via_file"]:
                path = os.path.join(d, "foreign." + fmt.lower())
                with open(path, "w", encoding="utf-8") as fh:
                    fh.write(text)
                loaded = ODMLReader(fmt, show_warnings=False).from_file(path)
            else:
                loaded = ODMLReader(fmt, show_warnings=False).from_string(text)
        except Exception as exc:
            fails.append(failure("dict.foreign_read_raised", "%s reader raised %r on a foreign odML 1.1 "
                                 "structure" % (fmt, str(exc)[:200]), fmt=fmt))
            return nontrivial(spec), ["foreign:" + fmt], fails
        if loaded is None:
            fails.append(failure("dict.foreign_read_raised", "%s reader returned None" % fmt, fmt=fmt))
        else:
            fails.extend(compare(expected, loaded, "dict.foreign_roundtrip"))
    finally:
        env.rm(d)
    return nontrivial(spec), ["foreign:" + fmt] + (["foreign:empty_child_lists_omitted"]
                                                   if case.get("omit_empty") else []), fails


def plan(tier):
    if tier == "quick":
        return ([{"name": "rt%d" % i, "type": "rt", "n": 160, "depth": 3} for i in range(11)] +
                [{"name": "foreign%d" % i, "type": "foreign", "n": 120, "depth": 2} for i in range(5)] +
                [{"name": "rt_ascii_locale", "type": "rt", "n": 80, "depth": 2, "env": "ascii_locale"},
                 {"name": "foreign_ascii_locale", "type": "foreign", "n": 80, "depth": 2, "env": "ascii_locale"}])
    return ([{"name": "rt%d" % i, "type": "rt", "n": 3000, "depth": 4} for i in range(11)] +
            [{"name": "foreign%d" % i, "type": "foreign", "n": 2500, "depth": 3} for i in range(5)] +
            [{"name": "rt_ascii_locale%d" % i, "type": "rt", "n": 1000, "depth": 3, "env": "ascii_locale"}
             for i in range(2)] +
            [{"name": "foreign_ascii_locale%d" % i, "type": "foreign", "n": 1000, "depth": 3,
              "env": "ascii_locale"} for i in range(2)])


def run(shard, seed, ctx):
    if shard["type"] == "rt":
        hyp.drive(ctx, "rt", hyp.in_env(cases(shard["depth"]), shard), body, shard["n"], seed)
    else:
        hyp.drive(ctx, "foreign", hyp.in_env(foreign_cases(shard["depth"]), shard), foreign_body,
                  shard["n"], seed)


def replay(kind, case):
    return (body(case) if kind == "rt" else foreign_body(case))[2]
