"""C11 - copies handed out are equal to, and independent of, the original."""
import os

from hypothesis import strategies as st

import odml
from odml.templates import TemplateHandler

from .. import build, env, hyp, snap, spec as S
from ..core import failure

PROPERTY = "C11"
LEVEL = "exploration"
RULE = ("Hypothesis document specs; every node (Document, Section, Property) as root of clone(children, "
        "keep_id) in all flag combinations, of export_leaf(), or of TemplateHandler.clone_section on a saved "
        "file; then an edit sequence (value edits through every route, renames, attribute, structural and "
        "cardinality edits, mutation of lists obtained from .values or passed in as values=) applied to the "
        "copy and, mirrored, to the original. Oracles: library equality and typed content snapshot at copy "
        "time, detached copy, identity walk (no shared Section, Property, child list, value list or inner "
        "tuple list), ids all fresh / all identical, children=False gives no children, export_leaf is exactly "
        "the root-to-node chain with all Properties and original ids; identity snapshot of the untouched side "
        "unchanged by the edits. Non-trivial = copy root has >= 1 descendant Property with values and the edit "
        "sequence performs >= 1 value edit and >= 1 structural edit")
ASSUMPTIONS = ["documents without resolved links (clones of merged Sections are C12's subject)",
               "'a list returned by values' is the returned list itself (its elements are compared too)"]

EDITS = ["values_clear", "values_dup", "setitem0", "remove0", "dtype_string", "rename", "attr", "sec_type",
         "add_sec", "add_prop", "remove_child", "reorder", "card", "values_list_mutation", "extend",
         "insert_value", "uncertainty", "doc_attr", "new_id", "parent_none"]
VALUE_EDITS = {"values_clear", "values_dup", "setitem0", "remove0", "dtype_string", "extend", "insert_value"}
STRUCT_EDITS = {"add_sec", "add_prop", "remove_child", "reorder", "parent_none"}


def cases(max_depth):
    return st.fixed_dictionaries({
        "doc": S.doc_spec(max_depth=max_depth, max_secs=3, max_props=3,
                          text_classes=["plain", "comma", "bracket", "nonascii"]),
        "mode": st.sampled_from(["clone", "clone", "clone", "export_leaf", "export_leaf", "template"]),
        "node": st.integers(0, 40),
        "children": st.booleans(), "keep_id": st.booleans(),
        "detach": st.sampled_from([False, False, False, True, "top"]),
        "dup_id_chain": st.sampled_from([False, True]),
        "linked": st.sampled_from([None, None, [0, 1], [1, 2], [2, 0], [3, 1], [1, 0]]),
        "nan": st.lists(st.tuples(st.integers(0, 20), st.sampled_from(["uncertainty", "value"])).map(list),
                        max_size=2),
        "edit_copy": st.booleans(),
        "unname": st.lists(st.integers(0, 40), min_size=0, max_size=2),
        "edits": st.lists(st.tuples(st.sampled_from(EDITS), st.integers(0, 30), st.integers(0, 5)).map(list),
                          min_size=0, max_size=8),
    })


def all_nodes(root):
    objs = snap.reachable([root])
    objs.sort(key=lambda o: (snap.kind(o) != "doc", _path(o)))
    return objs


def _path(o):
    try:
        return o.get_path()
    except Exception:
        return ""


def apply_edit(root, edit, fails=None):
    op, a, b = edit
    objs = all_nodes(root)
    secs = [o for o in objs if snap.kind(o) == "sec"]
    props = [o for o in objs if snap.kind(o) == "prop"]
    conts = [o for o in objs if snap.kind(o) in ("doc", "sec")]
    try:
        if op in VALUE_EDITS or op in ("values_list_mutation", "uncertainty"):
            if not props:
                return None
            p = props[a % len(props)]
            if op == "values_clear":
                p.values = []
            elif op == "values_dup":
                if p.values:
                    p.values = p.values + p.values
            elif op == "setitem0":
                if p.values:
                    p[0] = p.values[-1]
            elif op == "remove0":
                if p.values:
                    p.remove(p.values[0])
            elif op == "dtype_string":
                p.dtype = "string"
            elif op == "extend":
                if p.values:
                    p.extend(p.values[:2], strict=False)
            elif op == "insert_value":
                if p.values:
                    p.insert(0, p.values[-1], strict=False)
            elif op == "values_list_mutation":
                import copy as _copy
                stored = _copy.deepcopy(list(p._values))
                lst = p.values
                if lst and isinstance(lst[0], list):
                    lst[0][0] = "mutated-inner"
                    lst[-1].append("mutated-inner")
                lst.append("mutated")
                lst[:1] = ["replaced"]
                del lst[:]
                if fails is not None and list(p._values) != stored:
                    fails.append(failure("copy.values_list_aliased", "editing the list returned by .values "
                                         "changed the Property itself (dtype %s): %r -> %r"
                                         % (p.dtype, stored, list(p._values)),
                                         tuple_dtype=str(p.dtype).endswith("-tuple")))
            elif op == "uncertainty":
                p.uncertainty = 42.5
        elif op == "rename":
            o = (secs + props)[a % len(secs + props)] if secs + props else None
            if o is not None:
                o.name = o.name + "-r%d" % b
        elif op == "attr":
            o = (secs + props)[a % len(secs + props)] if secs + props else None
            if o is not None:
                setattr(o, ["definition", "reference"][b % 2], "edited-%d" % b)
                if snap.kind(o) == "prop":
                    o.unit = "edited"
                    o.value_origin = "edited"
                    o.dependency = "edited"
        elif op == "sec_type":
            if secs:
                secs[a % len(secs)].type = "edited/type"
        elif op == "add_sec":
            if conts:
                conts[a % len(conts)].append(odml.Section(name="added-%d-%d" % (a, b), type="t"))
        elif op == "add_prop":
            if secs:
                secs[a % len(secs)].append(odml.Property(name="addedp-%d-%d" % (a, b), values=[1, 2]))
        elif op == "remove_child":
            cands = [o for o in secs + props if o.parent is not None]
            if cands:
                o = cands[a % len(cands)]
                o.parent.remove(o)
        elif op == "parent_none":
            cands = [o for o in secs + props if o.parent is not None]
            if cands:
                cands[a % len(cands)].parent = None
        elif op == "reorder":
            cands = [o for o in secs + props if o.parent is not None]
            if cands:
                cands[a % len(cands)].reorder(b)
        elif op == "card":
            if secs:
                s = secs[a % len(secs)]
                s.sec_cardinality = (b, b + 2)
                s.prop_cardinality = (None, b + 1)
            if props:
                props[a % len(props)].val_cardinality = (b, None) if b else None
        elif op == "doc_attr":
            if snap.kind(root) == "doc":
                root.author = "edited"
                root.version = "9"
                root.date = "2001-02-03"
        elif op == "new_id":
            objs[a % len(objs)].new_id()
    except Exception:
        return op + ":refused"
    return op


def identity_walk(a_root, b_root):
    """Objects / lists shared between two graphs (by Python identity)."""
    shared = []
    a_objs = snap.reachable([a_root])
    b_ids = {}
    for o in snap.reachable([b_root]):
        b_ids[id(o)] = "object"
        if snap.kind(o) in ("doc", "sec"):
            b_ids[id(o._sections)] = "sections list"
        if snap.kind(o) == "sec":
            b_ids[id(o._props)] = "properties list"
        if snap.kind(o) == "prop":
            b_ids[id(o._values)] = "value list"
            for v in o._values:
                if isinstance(v, list):
                    b_ids[id(v)] = "inner tuple list"
    for o in a_objs:
        things = [o]
        if snap.kind(o) in ("doc", "sec"):
            things.append(o._sections)
        if snap.kind(o) == "sec":
            things.append(o._props)
        if snap.kind(o) == "prop":
            things.append(o._values)
            things.extend(v for v in o._values if isinstance(v, list))
        for t in things:
            if id(t) in b_ids:
                shared.append("%s of %s %r" % (b_ids[id(t)], snap.kind(o), getattr(o, "name", "<doc>")))
    return shared


def ids_of(root):
    return [o.id for o in snap.reachable([root])]


def body(case):
    import copy as _copy
    doc = build.build_doc(S.inject_nan(_copy.deepcopy(case["doc"]), case.get("nan", [])))
    nodes = all_nodes(doc)
    for i in case.get("unname", []):
        o = nodes[i % len(nodes)]
        if snap.kind(o) in ("sec", "prop"):
            o.name = None            # unnamed objects carry their id as name
    # one Section may have resolved a link before it is copied
    linked = None
    if case.get("linked") and case["mode"] == "clone":
        secs_ = [o for o in nodes if snap.kind(o) == "sec"]
        if len(secs_) >= 2:
            x = secs_[case["linked"][0] % len(secs_)]
            y = secs_[case["linked"][1] % len(secs_)]
            if x is not y and x not in snap.reachable([y]) and y not in snap.reachable([x]):
                x.definition = None
                x.reference = None
                if not y.definition:
                    y.definition = "definition of the link target"
                try:
                    x.link = y.get_path()
                    linked = x if x.is_merged else None
                except Exception:
                    linked = None
                nodes = all_nodes(doc)
    node = nodes[case["node"] % len(nodes)]
    mode = case["mode"]
    k = snap.kind(node)
    fails = []
    classes = ["mode:" + mode, "root:" + k]
    tmpdir = None
    handler = None
    origin = doc
    try:
        original_root = node
        if mode == "template":
            tops = [s for s in list.__iter__(doc.sections)]
            if not tops:
                return False, classes + ["template:skipped"], []
            tmpdir = env.fresh_dir("c11")
            path = os.path.join(tmpdir, "templ.xml")
            odml.save(doc, path)
            url = "file://" + path
            handler = TemplateHandler()
            top = tops[case["node"] % len(tops)]
            try:
                copy = handler.clone_section(url, top.name, children=case["children"],
                                             keep_id=case["keep_id"])
            except Exception as exc:
                fails.append(failure("copy.raised", "clone_section raised %r" % exc, mode=mode))
                return True, classes, fails
            original_root = handler[url].sections[top.name]
            k = "sec"
            children, keep_id = case["children"], case["keep_id"]
        elif mode == "export_leaf":
            if k == "doc":
                return False, classes + ["export:skipped"], []
            if case.get("detach") == "top":
                # the tree is not part of a Document: the chain ends at its top Section
                top = node if k == "sec" else node.parent
                while top.parent is not None and snap.kind(top.parent) == "sec":
                    top = top.parent
                if top.parent is not None:
                    top.parent.remove(top)
                origin = top
                classes.append("export:tree_without_document")
            elif case.get("detach"):
                # the chain of a detached object is the object alone
                node.parent = None
                origin = node
                classes.append("export:detached_" + k)
            if case.get("dup_id_chain"):
                # ids are not what tells the objects of a chain apart: give the start Section the id of
                # one of its ancestors (what a keep_id clone appended below its original looks like)
                sec0 = node if k == "sec" else node.parent
                anc = sec0.parent if sec0 is not None else None
                if anc is not None and snap.kind(anc) == "sec":
                    sec0.new_id(anc.id)
                    classes.append("export:start_shares_id_with_ancestor")
            try:
                copy = node.export_leaf()
            except Exception as exc:
                fails.append(failure("copy.raised", "export_leaf raised %r" % exc, mode=mode))
                return True, classes, fails
            children, keep_id = None, True
        else:
            children, keep_id = case["children"], case["keep_id"]
            try:
                if k == "prop":
                    copy = node.clone(keep_id=keep_id)
                    children = True
                else:
                    copy = node.clone(children=children, keep_id=keep_id)
            except Exception as exc:
                fails.append(failure("copy.raised", "clone raised %r" % exc, mode=mode))
                return True, classes, fails
        classes.append("flags:children=%s,keep_id=%s" % (children, keep_id))

        if mode != "export_leaf":
            # detached
            if snap.kind(copy) != "doc" and copy.parent is not None:
                fails.append(failure("copy.attached", "the copy has a parent", mode=mode))
            orig_img = snap.content(original_root)
            copy_img = snap.content(copy)
            has_children = bool(orig_img.get("sections") or orig_img.get("props"))
            if children or not has_children:
                a = snap.normalize(orig_img, ids=False)
                b = snap.normalize(copy_img, ids=False)
                for path, key, x, y, kk in snap.diff(a, b, limit=3):
                    fails.append(failure("copy.content", "%s %s: original %r, copy %r" % (path, key, x, y),
                                         attr=key, mode=mode))
                try:
                    if not (copy == original_root) or (copy != original_root):
                        fails.append(failure("copy.not_equal", "copy == original is False", mode=mode,
                                             rootkind=k))
                except Exception as exc:
                    fails.append(failure("copy.not_equal", "comparing copy and original raised %r" % exc,
                                         mode=mode))
            else:
                if copy_img.get("sections") or copy_img.get("props"):
                    fails.append(failure("copy.children_false", "children=False but the copy has children",
                                         mode=mode))
                a = snap.normalize(dict(orig_img, sections=[], props=[]), ids=False)
                b = snap.normalize(copy_img, ids=False)
                for path, key, x, y, kk in snap.diff(a, b, limit=3):
                    fails.append(failure("copy.content", "%s %s: original %r, copy %r" % (path, key, x, y),
                                         attr=key, mode=mode))
            oids, cids = ids_of(original_root), ids_of(copy)
            if keep_id:
                want = oids if children else oids[:1]
                if sorted(cids) != sorted(want if children else [original_root.id]):
                    fails.append(failure("copy.ids_keep", "keep_id=True but ids differ", mode=mode, rootkind=k))
            else:
                if len(set(oids)) == len(oids) and len(set(cids)) != len(cids):
                    fails.append(failure("copy.ids_fresh", "keep_id=False: the ids of the copy are not distinct "
                                         "from one another (%d objects, %d ids)" % (len(cids), len(set(cids))),
                                         mode=mode, rootkind=k, not_distinct=True))
                reused = set(cids) & set(ids_of(doc) if mode != "template" else oids)
                if reused:
                    fails.append(failure("copy.ids_fresh", "keep_id=False but %d id(s) of the original were "
                                         "reused (root id reused: %s)" % (len(reused), copy.id in reused),
                                         mode=mode, rootkind=k, root_id_reused=copy.id in reused))
        else:
            fails.extend(check_export_leaf(node, copy))
        shared = identity_walk(copy, origin if mode != "template" else handler[url])
        if shared:
            fails.append(failure("copy.shared", "copy and original share %s" % shared[:3], mode=mode,
                                 what=shared[0].split(" of ")[0]))
        if fails:
            return True, classes, fails

        # phase 2: edits on one side must not show on the other
        source_root = origin if mode != "template" else handler[url]
        edited, untouched = (copy, source_root) if case["edit_copy"] else (source_root, copy)
        universe = snap.reachable([untouched])
        before = snap.identity(universe)
        done = []
        for e in case["edits"]:
            tag = apply_edit(edited, e, fails)
            if tag:
                done.append(tag)
        after = snap.identity(universe)
        d = snap.identity_diff(before, after)
        if d:
            i0, k0, key0, x0, y0 = d[0]
            fails.append(failure("copy.dependent", "editing the %s (%s) changed the %s: %s %s %r -> %r"
                                 % ("copy" if case["edit_copy"] else "original", done, "original"
                                    if case["edit_copy"] else "copy", k0, key0, x0, y0),
                                 mode=mode, key=key0, edited="copy" if case["edit_copy"] else "original"))
        # a list passed in as values= stays the caller's
        mine = [1, 2, 3]
        p = odml.Property(name="fresh", values=mine)
        mine.append(4)
        mine[0] = 99
        if p.values != [1, 2, 3]:
            fails.append(failure("copy.values_arg_aliased", "editing the list passed as values= changed the "
                                 "Property: %r" % p.values))
        for how in ("ctor", "setter", "extend"):
            mine = [["1", "2"], ["3", "4"]]
            if how == "ctor":
                p = odml.Property(name="fresh", values=mine, dtype="2-tuple")
            else:
                p = odml.Property(name="fresh", dtype="2-tuple")
                if how == "setter":
                    p.values = mine
                else:
                    p.extend(mine)
            mine[0][0] = "99"
            mine[1].append("5")
            if p.values != [["1", "2"], ["3", "4"]]:
                fails.append(failure("copy.values_arg_aliased", "editing a tuple (list) passed in through %s "
                                     "changed the Property: %r" % (how, p.values), how=how, tuple_dtype=True))
        if linked is not None and case["edit_copy"] and not fails:
            # cleaning the copy first must not change what cleaning the original does
            classes.append("linked_section_in_original")
            try:
                if snap.kind(copy) in ("doc", "sec"):
                    copy.clean()
                doc.clean()
                if linked.definition is not None or linked.reference is not None or linked.is_merged:
                    fails.append(failure("copy.dependent", "after clean() of the copy, clean() of the original "
                                         "left definition %r / reference %r on the linking Section (it had none "
                                         "before the link was resolved)" % (linked.definition, linked.reference),
                                         mode=mode, key="clean", edited="copy"))
            except Exception as exc:
                fails.append(failure("copy.dependent", "clean() of copy and original raised %r" % exc, mode=mode,
                                     key="clean", edited="copy"))
        classes.extend("edit:" + t for t in done)
        has_vals = any(snap.kind(o) == "prop" and o.values for o in snap.reachable([copy]))
        nt = has_vals and any(t in VALUE_EDITS for t in done) and any(t in STRUCT_EDITS for t in done)
        return nt, classes, fails
    finally:
        if tmpdir:
            env.rm(tmpdir)


def check_export_leaf(node, copy):
    fails = []
    # expected chain from the root down to the node's Section
    sec = node if snap.kind(node) == "sec" else node.parent
    if sec is None:
        # the chain of a detached Property is the Property alone: a copy of it with the original id
        if copy is node:
            fails.append(failure("export.shared", "export_leaf of a detached Property returned the Property "
                                 "itself, not a copy", detached_property=True))
            return fails
        if snap.kind(copy) != "prop" or copy.parent is not None:
            fails.append(failure("export.chain", "export_leaf of a detached Property returned %r" % (copy,),
                                 detached_property=True))
            return fails
        if copy.id != node.id:
            fails.append(failure("export.ids", "detached Property: id %s, original %s" % (copy.id, node.id)))
        a = snap.normalize(snap.content(node), ids=True)
        b = snap.normalize(snap.content(copy), ids=True)
        for path, key, x, y, kk in snap.diff(a, b, limit=2):
            fails.append(failure("export.content", "detached Property %s: original %r, export %r" % (key, x, y),
                                 attr=key))
        return fails
    chain = []
    cur = sec
    while cur is not None:
        chain.insert(0, cur)
        cur = cur.parent
    got = copy
    for depth, orig in enumerate(chain):
        if snap.kind(got) != snap.kind(orig):
            fails.append(failure("export.chain", "level %d of the export is a %s, the original chain has a %s"
                                 % (depth, snap.kind(got), snap.kind(orig))))
            return fails
        if got is orig:
            fails.append(failure("export.shared", "the export contains an object of the original"))
        if got.id != orig.id:
            fails.append(failure("export.ids", "level %d: id %s, original %s" % (depth, got.id, orig.id)))
        a = snap.normalize(dict(snap.content(orig), sections=[]), ids=True)
        b = snap.normalize(dict(snap.content(got), sections=[]), ids=True)
        for path, key, x, y, kk in snap.diff(a, b, limit=2):
            fails.append(failure("export.content", "level %d %s %s: original %r, export %r"
                                 % (depth, path, key, x, y), attr=key))
        kids = list(list.__iter__(got.sections))
        if depth + 1 < len(chain):
            if len(kids) != 1:
                fails.append(failure("export.chain", "level %d of the export has %d sub-Sections, expected "
                                     "exactly the one on the chain" % (depth, len(kids))))
                return fails
            if kids[0].parent is not got:
                fails.append(failure("export.chain", "exported child does not report its container as parent"))
            got = kids[0]
        elif kids:
            fails.append(failure("export.chain", "the exported leaf Section has %d sub-Sections" % len(kids)))
    return fails


def plan(tier):
    if tier == "quick":
        return [{"name": "copy%d" % i, "n": 200, "depth": 3} for i in range(16)]
    return [{"name": "copy%d" % i, "n": 2500, "depth": 4} for i in range(16)]


def run(shard, seed, ctx):
    hyp.drive(ctx, "copy", cases(shard["depth"]), body, shard["n"], seed)


def replay(kind, case):
    return body(case)[2]
