"""C09 - cardinalities: normal form, exact violation reports, never enforced, persisted."""
import itertools
import os

from hypothesis import strategies as st

import odml
from odml.tools.odmlparser import ODMLReader, ODMLWriter
from odml.validation import IssueID, Validation

from .. import env, hyp
from ..core import failure
from ..model import cardinality as M

PROPERTY = "C09"
LEVEL = "exploration"
EXHAUSTIVE = ("all settings of the prescribed grid (None, ints -1..4, pairs over {None,-1..4} as tuple "
              "and list, strings, floats, wrong-length tuples) x child counts 0..5 x 3 kinds x both "
              "setter forms; every valid setting x 3 formats x string/file persistence")
RULE = ("forest: Hypothesis-built documents (<= 3 top Sections x <= 2 sub-Sections x <= 2 Properties drawn from "
        "tiny name pools, so content-equal objects under different parents are common), validated as a "
        "whole; non-trivial = >= 2 objects violate their cardinality. grid: itertools.product over the settings/count/kind/setter-form space (complete); histories: "
        "Hypothesis lists of set-cardinality/add/remove/validate steps. Non-trivial = the child count "
        "lies on a boundary of the stored cardinality (== min, == max, min == max, min == 0) or the "
        "setting is invalid; distinct = distinct (kind, form, setting, count) cell or distinct history")
ASSUMPTIONS = [
    "falsy-but-odd inputs (0.0, '', [], (), pairs containing them) may either reset or raise ValueError",
    "bool cardinalities are outside the prescribed grid",
    "a maximum of 0 means 'no maximum' (this is how every code path reads it)",
]

KINDS = ("values", "properties", "sections")
ISSUE = {"values": IssueID.property_values_cardinality,
         "properties": IssueID.section_properties_cardinality,
         "sections": IssueID.section_sections_cardinality}
ATTR = {"values": "val_cardinality", "properties": "prop_cardinality", "sections": "sec_cardinality"}
SETTER = {"values": "set_values_cardinality", "properties": "set_properties_cardinality",
          "sections": "set_sections_cardinality"}
PREV = (2, 7)

_R = [None, -1, 0, 1, 2, 3, 4]


def settings():
    out = [None, -1, 0, 1, 2, 3, 4]
    pairs = list(itertools.product(_R, _R))
    out += [tuple(p) for p in pairs]
    out += [list(p) for p in pairs]
    out += ["1", "(1, 2)", "", "None", 1.0, 1.5, 0.0, 2.0, (), (1,), (1, 2, 3), [], [1], [1, 2, 3],
            (None,), (0, 0.0), ("", 2), (1.0, 2), (1, 2.0), ("1", "2")]
    # bounds with different numbers of digits (text order differs from numeric order)
    out += [(2, 10), (9, 10), (3, 12), (20, 100), (10, 12), (None, 10), (100, None), (10, 10), (10, 9),
            (100, 20), 10, 100, [9, 11], (0, 10)]
    return out


def make(kind, count):
    if kind == "values":
        return odml.Property(name="p", values=list(range(count)), dtype="int")
    sec = odml.Section(name="s", type="t")
    for i in range(count):
        if kind == "properties":
            sec.append(odml.Property(name="p%d" % i, values=[i]))
        else:
            sec.append(odml.Section(name="s%d" % i, type="t"))
    return sec


def count_of(obj, kind):
    return len(getattr(obj, kind))


def reported(obj, kind):
    """Does a default validation report the cardinality issue for this very object?"""
    errs = Validation(obj).errors
    hits = [e for e in errs if e.validation_id == ISSUE[kind] and e.obj is obj]
    wrong_rank = [e for e in hits if not e.is_warning]
    return len(hits), wrong_rank


def check_state(obj, kind, fails, where, **locus):
    stored = getattr(obj, ATTR[kind])
    if not M.normal_form_ok(stored):
        fails.append(failure("card.normal_form", "%s: stored %s cardinality %r is not in normal form"
                             % (where, kind, stored), kind=kind, **locus))
        return
    n = count_of(obj, kind)
    nhits, wrong = reported(obj, kind)
    expect = M.violated(stored, n)
    if wrong:
        fails.append(failure("card.rank", "%s: cardinality issue reported with rank %r"
                             % (where, wrong[0].rank), kind=kind, **locus))
    if expect and nhits != 1:
        fails.append(failure("card.report_missing", "%s: %d %s with cardinality %r: expected one warning, "
                             "got %d" % (where, n, kind, stored, nhits), kind=kind, **locus))
    if not expect and nhits:
        fails.append(failure("card.report_spurious", "%s: %d %s with cardinality %r: unexpected warning"
                             % (where, n, kind, stored), kind=kind, **locus))


def apply_setting(obj, kind, form, setting):
    if form == "attr":
        setattr(obj, ATTR[kind], setting)
    else:
        getattr(obj, SETTER[kind])(setting[0], setting[1])


def grid_case(kind, form, setting, count):
    fails = []
    obj = make(kind, count)
    setattr(obj, ATTR[kind], PREV)
    if getattr(obj, ATTR[kind]) != PREV:
        fails.append(failure("card.normal_form", "valid setting %r stored as %r"
                             % (PREV, getattr(obj, ATTR[kind])), kind=kind))
        return fails, False
    verdict, eff = M.classify(setting)
    raised = None
    try:
        apply_setting(obj, kind, form, setting)
    except ValueError as exc:
        raised = exc
    except Exception as exc:  # noqa
        raised = exc
        fails.append(failure("card.exception_type", "setting %r raised %s instead of ValueError"
                             % (setting, type(exc).__name__), kind=kind, setting=repr(setting)))
    stored = getattr(obj, ATTR[kind])
    if raised is not None:
        if verdict == "valid":
            fails.append(failure("card.valid_refused", "valid setting %r was refused: %r"
                                 % (setting, raised), kind=kind, setting=repr(setting)))
        if stored != PREV:
            fails.append(failure("card.refused_changed", "refused setting %r changed the stored value "
                                 "from %r to %r" % (setting, PREV, stored), kind=kind,
                                 setting=repr(setting)))
    else:
        if verdict == "invalid":
            fails.append(failure("card.invalid_accepted", "invalid setting %r was accepted and stored as %r"
                                 % (setting, stored), kind=kind, setting=repr(setting)))
        elif verdict == "valid":
            if M.normal_form_ok(stored) and M.effective(stored) != eff:
                fails.append(failure("card.meaning", "setting %r stored as %r (means %r, expected %r)"
                                     % (setting, stored, M.effective(stored), eff), kind=kind,
                                     setting=repr(setting)))
    check_state(obj, kind, fails, "after setting %r" % (setting,), setting=repr(setting))
    emin, emax = M.effective(stored)
    boundary = stored is not None and (count == emin or count == emax or emin == emax or emin == 0)
    return fails, (verdict == "invalid" or boundary)


def ctor_case(kind, setting):
    """The cardinality given to the constructor is an assignment like any other."""
    fails = []
    verdict, eff = M.classify(setting)
    raised = None
    obj = None
    holder = odml.Section(name="holder", type="t")
    try:
        if kind == "values":
            obj = odml.Property(name="p", values=[1, 2], dtype="int", val_cardinality=setting, parent=holder)
        elif kind == "properties":
            obj = odml.Section(name="s", type="t", prop_cardinality=setting, parent=holder)
        else:
            obj = odml.Section(name="s", type="t", sec_cardinality=setting, parent=holder)
    except ValueError as exc:
        raised = exc
    except Exception as exc:  # noqa
        raised = exc
        fails.append(failure("card.exception_type", "constructor with %r raised %s instead of ValueError"
                             % (setting, type(exc).__name__), kind=kind, setting=repr(setting), form="ctor"))
    if raised is not None:
        if verdict == "valid":
            fails.append(failure("card.valid_refused", "constructor refused the valid setting %r: %r"
                                 % (setting, raised), kind=kind, setting=repr(setting), form="ctor"))
        if len(holder.sections) or len(holder.properties):
            fails.append(failure("card.refused_changed", "constructor refused %r but the object was attached"
                                 % (setting,), kind=kind, setting=repr(setting), form="ctor"))
        return fails, verdict == "invalid"
    stored = getattr(obj, ATTR[kind])
    if verdict == "invalid":
        fails.append(failure("card.invalid_accepted", "constructor accepted the invalid setting %r (stored %r)"
                             % (setting, stored), kind=kind, setting=repr(setting), form="ctor"))
    elif verdict == "valid" and M.normal_form_ok(stored) and M.effective(stored) != eff:
        fails.append(failure("card.meaning", "constructor setting %r stored as %r" % (setting, stored),
                             kind=kind, setting=repr(setting), form="ctor"))
    check_state(obj, kind, fails, "after constructor with %r" % (setting,), setting=repr(setting))
    return fails, verdict == "invalid" or stored is not None


def run_grid(kind, ctx):
    for setting in settings():
        case = {"kind": kind, "form": "ctor", "setting": repr(setting), "count": 0}
        fails, nt = ctor_case(kind, setting)
        unmatched = ctx.case(case, nt, ["grid:ctor:" + M.classify(setting)[0]], fails, kind="grid")
        if unmatched:
            ctx.violation("grid", case, unmatched)
    for form in ("attr", "method"):
        for setting in settings():
            if form == "method" and not (isinstance(setting, (tuple, list)) and len(setting) == 2):
                continue
            for count in range(6):
                case = {"kind": kind, "form": form, "setting": repr(setting), "count": count}
                try:
                    with env.watchdog():
                        fails, nt = grid_case(kind, form, setting, count)
                except env.CaseHang:
                    fails, nt = [failure("hang.no_return", "the call did not return within %d s"
                                         % env.HANG_SECONDS)], True
                unmatched = ctx.case(case, nt, ["grid:" + M.classify(setting)[0]], fails, kind="grid")
                if unmatched:
                    ctx.violation("grid", case, unmatched)


# ------------------------------------------------------------------------------------
# persistence

def persist_case(kind, setting, fmt, via):
    fails = []
    doc = odml.Document()
    holder = odml.Section(name="holder", type="t")
    doc.append(holder)
    obj = make(kind, 2)
    holder.append(obj)
    setattr(obj, ATTR[kind], setting)
    stored = getattr(obj, ATTR[kind])
    if via == "string":
        text = ODMLWriter(fmt).to_string(doc)
        back = ODMLReader(fmt, show_warnings=False).from_string(text)
    else:
        d = env.fresh_dir("c09")
        path = os.path.join(d, "f." + fmt.lower())
        odml.save(doc, path, fmt)
        back = odml.load(path, fmt, show_warnings=False)
        env.rm(d)
    robj = back.sections[0].sections[0] if kind != "values" else back.sections[0].properties[0]
    got = getattr(robj, ATTR[kind])
    if got != stored:
        fails.append(failure("card.persist", "%s cardinality %r became %r after %s %s save/load"
                             % (kind, stored, got, fmt, via), kind=kind, fmt=fmt,
                             equal_bounds=bool(stored and stored[0] == stored[1])))
    return fails, stored


def run_persist(fmt, ctx):
    seen = set()
    for kind in KINDS:
        for setting in settings():
            if M.classify(setting)[0] != "valid":
                continue
            for via in ("string", "file"):
                case = {"kind": kind, "setting": repr(setting), "fmt": fmt, "via": via}
                fails, stored = persist_case(kind, setting, fmt, via)
                nt = stored is not None
                unmatched = ctx.case(case, nt, ["persist:" + fmt], fails, kind="persist")
                seen.add(repr(stored))
                if unmatched:
                    ctx.violation("persist", case, unmatched)


# ------------------------------------------------------------------------------------
# histories

_valid_settings = [s for s in settings() if M.classify(s)[0] == "valid" and not isinstance(s, list)]

STEP = st.one_of(
    st.tuples(st.just("set"), st.integers(0, len(_valid_settings) - 1)),
    st.tuples(st.just("add"), st.integers(1, 3)),
    st.tuples(st.just("add"), st.integers(1, 3)),
    st.tuples(st.just("del"), st.integers(1, 3)),
    st.tuples(st.just("setvalues"), st.integers(0, 6)),
)
HISTORY = st.tuples(st.sampled_from(KINDS), st.lists(STEP, min_size=2, max_size=14))


def history_body(case):
    kind, steps = case
    fails = []
    obj = make(kind, 0)
    uid = [0]
    boundary = False
    nset = 0
    for i, (op, arg) in enumerate(steps):
        try:
            if op == "set":
                setattr(obj, ATTR[kind], _valid_settings[arg])
                nset += 1
            elif op == "add":
                for _ in range(arg):
                    uid[0] += 1
                    if kind == "values":
                        obj.append(uid[0])
                    elif kind == "properties":
                        obj.append(odml.Property(name="p%d" % uid[0], values=[1]))
                    else:
                        obj.append(odml.Section(name="s%d" % uid[0], type="t"))
            elif op == "del":
                for _ in range(arg):
                    if count_of(obj, kind) == 0:
                        break
                    if kind == "values":
                        obj.remove(obj.values[-1])
                    else:
                        obj.remove(getattr(obj, kind)[-1])
            elif op == "setvalues":
                if kind == "values":
                    obj.values = list(range(arg))
                else:
                    continue
        except Exception as exc:  # noqa
            fails.append(failure("card.blocks_edit", "step %d %s(%r) raised %r with %s cardinality %r"
                                 % (i, op, arg, exc, kind, getattr(obj, ATTR[kind])), kind=kind, op=op))
            break
        check_state(obj, kind, fails, "history step %d" % i, op=op)
        stored = getattr(obj, ATTR[kind])
        if stored is not None:
            emin, emax = M.effective(stored)
            n = count_of(obj, kind)
            if n in (emin, emax, emin - 1, (emax or -9) + 1):
                boundary = True
        if fails:
            break
    return (boundary and nset > 0), ["history:" + kind], fails


# ------------------------------------------------------------------------------------
# whole documents: every object of a tree gets exactly its own report

_CARDS = [None, None, (1, None), (None, 1), (2, 2), (1, 3), (None, 2), (3, None), (2, 10), (0, 1)]
_PROP = st.tuples(st.sampled_from(["p", "q"]), st.integers(0, 3), st.sampled_from(_CARDS))
_LEAF = st.tuples(st.sampled_from(["x", "y"]), st.lists(_PROP, max_size=2, unique_by=lambda t: t[0]),
                  st.sampled_from(_CARDS), st.sampled_from(_CARDS))
_MID = st.tuples(st.sampled_from(["a", "b", "c"]), st.lists(_LEAF, max_size=2, unique_by=lambda t: t[0]),
                 st.lists(_PROP, max_size=2, unique_by=lambda t: t[0]),
                 st.sampled_from(_CARDS), st.sampled_from(_CARDS))
FOREST = st.tuples(st.lists(_MID, min_size=1, max_size=3, unique_by=lambda t: t[0]),
                   st.sampled_from(["doc", "doc.validate", "top_section"]),
                   st.one_of(st.none(), st.none(), st.tuples(st.integers(0, 2), st.integers(0, 2)).map(list)))


def forest_body(case):
    mids, entry = case[0], case[1]
    link = case[2] if len(case) > 2 else None
    fails = []
    doc = odml.Document()
    objs = []          # (object, kind)

    def add_props(sec, props):
        for name, n, card in props:
            p = odml.Property(name=name, values=list(range(n)), dtype="int", parent=sec)
            p.val_cardinality = card
            objs.append((p, "values"))

    for name, leaves, props, scard, pcard in mids:
        mid = odml.Section(name=name, type="t", parent=doc)
        add_props(mid, props)
        for lname, lprops, lscard, lpcard in leaves:
            leaf = odml.Section(name=lname, type="t", parent=mid)
            add_props(leaf, lprops)
            leaf.sec_cardinality = lscard
            leaf.prop_cardinality = lpcard
            objs.extend([(leaf, "sections"), (leaf, "properties")])
        mid.sec_cardinality = scard
        mid.prop_cardinality = pcard
        objs.extend([(mid, "sections"), (mid, "properties")])
    linked = False
    if link is not None and len(doc.sections) >= 2:
        # children taken over through a resolved link count like any other child
        a, b = doc.sections[link[0] % len(doc.sections)], doc.sections[link[1] % len(doc.sections)]
        if a is not b:
            try:
                a.link = b.get_path()
                linked = bool(a.is_merged)
            except Exception:
                linked = False
            if linked:
                for s_ in a.sections:
                    if not any(o is s_ for o, _ in objs):
                        objs.extend([(s_, "sections"), (s_, "properties")])
                for p_ in list(a.properties) + [p for s_ in a.sections for p in s_.properties]:
                    if not any(o is p_ for o, _ in objs):
                        objs.append((p_, "values"))
    if entry == "doc":
        errs = Validation(doc).errors
        scope = None
    elif entry == "doc.validate":
        errs = doc.validate().errors
        scope = None
    else:
        top = doc.sections[0]
        errs = Validation(top).errors
        scope = {id(top)} | {id(o) for o in top.itersections()} | {id(o) for o in top.iterproperties()}
    twins = 0
    seen_content = []
    expected_hits = 0
    for obj, kind in objs:
        if scope is not None and id(obj) not in scope:
            continue
        hits = [e for e in errs if e.validation_id == ISSUE[kind] and e.obj is obj]
        stored = getattr(obj, ATTR[kind])
        expect = M.violated(stored, count_of(obj, kind))
        expected_hits += bool(expect)
        if expect and any(o is not obj and o == obj and k == kind for o, k in seen_content):
            twins += 1
        seen_content.append((obj, kind))
        if expect and len(hits) != 1:
            fails.append(failure("card.report_missing", "document validation (%s): %s %r with %d %s and "
                                 "cardinality %r: expected one warning for this object, got %d"
                                 % (entry, type(obj).__name__, obj.get_path(), count_of(obj, kind), kind,
                                    stored, len(hits)), kind=kind, scope="document"))
        elif not expect and hits:
            fails.append(failure("card.report_spurious", "document validation (%s): %s %r with %d %s and "
                                 "cardinality %r: unexpected warning"
                                 % (entry, type(obj).__name__, obj.get_path(), count_of(obj, kind), kind,
                                    stored), kind=kind, scope="document"))
        if any(not e.is_warning for e in hits):
            fails.append(failure("card.rank", "document validation: cardinality issue reported as error",
                                 kind=kind, scope="document"))
    return expected_hits >= 2, ["forest:" + entry] + (["forest:equal_content_twins"] if twins else []) + \
        (["forest:resolved_link"] if linked else []), fails[:4]


def plan(tier):
    shards = [{"name": "grid-" + k, "type": "grid", "kind": k} for k in KINDS]
    shards += [{"name": "persist-" + f, "type": "persist", "fmt": f} for f in ("XML", "JSON", "YAML")]
    nshards, n = (8, 250) if tier == "quick" else (10, 15000)
    shards += [{"name": "hist%d" % i, "type": "hist", "n": n} for i in range(nshards)]
    shards += [{"name": "forest%d" % i, "type": "forest", "n": n} for i in range(2 if tier == "quick" else 4)]
    return shards


def run(shard, seed, ctx):
    if shard["type"] == "grid":
        run_grid(shard["kind"], ctx)
    elif shard["type"] == "persist":
        run_persist(shard["fmt"], ctx)
    elif shard["type"] == "forest":
        hyp.drive(ctx, "forest", FOREST.map(lambda c: [[list(m) for m in c[0]], c[1], c[2]]),
                  lambda c: forest_body(_forest_case(c)), shard["n"], seed)
    else:
        hyp.drive(ctx, "history", HISTORY, history_body, shard["n"], seed)


def _forest_case(case):
    """JSON form (nested lists) -> the tuples forest_body reads; cardinalities become tuples again."""
    def card(c):
        return tuple(c) if isinstance(c, list) else c

    def props(ps):
        return [(n, k, card(c)) for n, k, c in ps]
    mids = []
    for name, leaves, ps, sc, pc in case[0]:
        mids.append((name, [(ln, props(lp), card(ls), card(lpc)) for ln, lp, ls, lpc in leaves],
                     props(ps), card(sc), card(pc)))
    return mids, case[1], (case[2] if len(case) > 2 else None)


def replay(kind, case):
    if kind == "forest":
        return forest_body(_forest_case(case))[2]
    if kind == "grid":
        setting = eval(case["setting"], {"__builtins__": {}}, {})  # repr of plain literals
        if case["form"] == "ctor":
            return ctor_case(case["kind"], setting)[0]
        return grid_case(case["kind"], case["form"], setting, case["count"])[0]
    if kind == "persist":
        setting = eval(case["setting"], {"__builtins__": {}}, {})
        return persist_case(case["kind"], setting, case["fmt"], case["via"])[0]
    if kind == "history":
        return history_body((case[0], [tuple(s) for s in case[1]]))[2]
    raise ValueError(kind)
