"""C01 - XML save/load is lossless and conforms to odML format 1.1."""
import io
import copy
import os

from hypothesis import strategies as st

import odml
from odml.tools.odmlparser import ODMLReader, ODMLWriter
from odml.tools.xmlparser import XMLReader, XMLWriter

from .. import build, env, hyp, snap, spec as S
from ..core import failure
from ..model import xmlfmt

PROPERTY = "C01"
LEVEL = "exploration"
RULE = ("Hypothesis document specs (any tree shape, every dtype incl. n-tuples, empty/single/multi values, "
        "text classes comma/quote/bracket/newline/XML metacharacters/non-ASCII/edge blanks/look-alikes, every "
        "optional attribute, every cardinality shape) x writer option (plain, local_style, custom_template) x "
        "reader mode (strict, lenient) x entry point (XMLWriter str/write_file, ODMLWriter to_string/"
        "write_file, odml.save; XMLReader from_string/from_file, ODMLReader, odml.load). Oracles: typed "
        "content snapshot equal after whitespace trimming; vocabulary checked with xml.etree; strict reader "
        "without warnings; an independent emitter's output loads to the document it describes; text XML "
        "cannot hold makes the writer raise. Non-trivial = >= 1 Property with >= 1 value and one of: a "
        "non-plain text class, >= 2 values, a tuple dtype, a cardinality, >= 3 optional attributes")
ASSUMPTIONS = ["text is compared after stripping surrounding whitespace; an attribute that is empty after "
               "stripping equals unset", "uncertainty is compared by numeric value",
               "n-tuple members are free of ';', '(' and ')' (the tuple syntax characters)"]

TEMPLATE = '<xsl:template match="odML"><html><body><h1>custom</h1></body></html></xsl:template>'

WRITERS = ["xmlwriter_str", "xmlwriter_file", "odmlwriter_str", "odmlwriter_file", "odml_save"]
READERS = ["xmlreader_strict", "xmlreader_lenient", "odmlreader", "odml_load"]
OPTIONS = ["plain", "plain", "local_style", "custom_template"]


def cases(max_depth, text_classes=None):
    return st.fixed_dictionaries({
        "doc": S.doc_spec(max_depth=max_depth, text_classes=text_classes, dtype_members=True),
        # stored (unresolved) links / includes are attributes like any other
        "links": st.lists(st.tuples(st.integers(0, 20), st.integers(0, 20),
                                    st.sampled_from(["link", "link", "include"])).map(list), max_size=2),
        "writer": st.sampled_from(WRITERS),
        "reader": st.sampled_from(READERS),
        "option": st.sampled_from(OPTIONS),
    })


FOREIGN_CLASSES = None     # every text class: the emitter quotes list fields the standard csv way


def foreign_cases(max_depth):
    return st.fixed_dictionaries({
        "doc": S.doc_spec(max_depth=max_depth, text_classes=FOREIGN_CLASSES, falsy=True),
        "perm": st.integers(0, 10 ** 6),
        "reader": st.sampled_from(READERS),
        "decl": st.booleans(),
    })


def nontrivial(spec):
    props = list(S.iter_props(spec))
    if not any(p["values"] for p in props):
        return False
    classes = S.text_classes_in(spec) - {"plain", "empty"}
    if classes:
        return True
    for p in props:
        nopt = sum(1 for a in ("unit", "uncertainty", "definition", "reference", "dependency",
                               "dependency_value", "value_origin") if p.get(a) is not None)
        if len(p["values"]) >= 2 or p["dtype"].endswith("-tuple") or p.get("val_card") or nopt >= 3:
            return True
    return any(s.get("sec_card") or s.get("prop_card") for s in S.iter_secs(spec))


def write(doc, writer, option, path):
    """Returns (text or None, path or None)."""
    kw = {}
    if option == "local_style":
        kw["local_style"] = True
    elif option == "custom_template":
        kw["custom_template"] = TEMPLATE
    if writer == "xmlwriter_str":
        return str(XMLWriter(doc)), None, "plain"
    if writer == "odmlwriter_str":
        return ODMLWriter("XML").to_string(doc), None, "plain"
    if writer == "xmlwriter_file":
        XMLWriter(doc).write_file(path, **kw)
    elif writer == "odmlwriter_file":
        ODMLWriter("XML").write_file(doc, path, **kw)
    else:
        odml.save(doc, path, "XML", **kw)
    with open(path, encoding="utf-8") as fh:
        return fh.read(), path, option


def read(text, path, reader, styled):
    """Returns (doc, warnings or None)."""
    if reader == "xmlreader_strict" and not styled:
        r = XMLReader(ignore_errors=False, show_warnings=False)
        doc = r.from_file(path) if path else r.from_string(text)
        return doc, r.warnings
    if reader in ("xmlreader_lenient", "xmlreader_strict"):
        r = XMLReader(ignore_errors=True, show_warnings=False)
        doc = r.from_file(path) if path else r.from_string(text)
        return doc, None
    if reader == "odmlreader" and not styled:
        r = ODMLReader("XML", show_warnings=False)
        return (r.from_file(path) if path else r.from_string(text)), None
    if path is None:
        path = os.path.join(env.fresh_dir("c01r"), "in.xml")
        with open(path, "w", encoding="utf-8") as fh:
            fh.write('<?xml version="1.0" encoding="UTF-8"?>\n' + text)
    return odml.load(path, "XML", show_warnings=False), None


def compare(expected_img, loaded, clause):
    fails = []
    a = snap.normalize(expected_img, trim=True)
    b = snap.normalize(snap.content(loaded), trim=True)
    for path, key, x, y, k in snap.diff(a, b, limit=4):
        loc = {"objkind": k, "attr": key}
        if key == "uncertainty":
            loc["number_became_its_text"] = S.is_text_of_number(x, y)
        if key == "values" and isinstance(x, list) and isinstance(y, list):
            loc["n_values"] = len(x)
            strs = [v[1] for v in x if v[0] == "str"]
            cl = set()
            for s_ in strs:
                cl |= S.classify_text(s_)
            loc["text_classes"] = sorted(cl)
        fails.append(failure(clause, "%s %s: built %r, loaded %r" % (path, key, x, y), **loc))
    return fails


def body(case):
    spec = S.add_links(copy.deepcopy(case["doc"]), case.get("links", []))
    doc = build.build_doc(spec)
    expected = snap.content(doc)
    d = env.fresh_dir("c01")
    path = os.path.join(d, "doc.xml")
    fails = []
    classes = ["writer:" + case["writer"], "reader:" + case["reader"], "option:" + case["option"]]
    classes += ["text:" + c for c in S.text_classes_in(spec)]
    try:
        try:
            text, wpath, option = write(doc, case["writer"], case["option"], path)
        except Exception as exc:  # every generated document is representable
            fails.append(failure("xml.write_raised", "writer %s raised %r on a representable document"
                                 % (case["writer"], exc), writer=case["writer"]))
            return nontrivial(spec), classes, fails
        styled = option != "plain"
        problems = xmlfmt.check_vocabulary(text, allow_foreign_root_children=1 if styled else 0)
        for p in problems[:3]:
            fails.append(failure("xml.vocabulary", p, writer=case["writer"], option=option))
        if snap.normalize(snap.content(doc)) != snap.normalize(expected):
            fails.append(failure("xml.write_mutates", "writing changed the document"))
        try:
            loaded, warns = read(text, wpath, case["reader"], styled)
        except Exception as exc:
            fails.append(failure("xml.read_raised", "reader %s raised %r on the writer's output"
                                 % (case["reader"], str(exc)[:200]), reader=case["reader"],
                                 text_classes=sorted(S.text_classes_in(spec))))
            return nontrivial(spec), classes, fails
        if warns:
            fails.append(failure("xml.strict_warnings", "strict reader warned: %r" % warns[:2]))
        fails.extend(compare(expected, loaded, "xml.roundtrip"))
    finally:
        env.rm(d)
    return nontrivial(spec), classes, fails


def foreign_body(case):
    import copy
    spec = S.fill_ids(copy.deepcopy(case["doc"]), case["perm"])
    fails = []
    text = xmlfmt.emit(spec, case["perm"], with_decl=case["decl"])
    problems = xmlfmt.check_vocabulary(text)
    if problems:
        raise RuntimeError("harness emitter violates its own vocabulary: %r" % problems)
    doc = build.build_doc(spec)
    expected = snap.content(doc)
    d = env.fresh_dir("c01f")
    path = os.path.join(d, "foreign.xml")
    try:
        with open(path, "w", encoding="utf-8") as fh:
            fh.write(text)
        try:
            loaded, warns = read(None if case["decl"] else text, path if case["decl"] else None,
                                 case["reader"], False)
        except Exception as exc:
            fails.append(failure("xml.foreign_read_raised", "reader %s raised %r on foreign odML 1.1 XML"
                                 % (case["reader"], str(exc)[:200]), reader=case["reader"]))
            return nontrivial(spec), ["foreign:" + case["reader"]], fails
        if warns:
            fails.append(failure("xml.foreign_warnings", "strict reader warned on foreign XML: %r" % warns[:2]))
        fails.extend(compare(expected, loaded, "xml.foreign_roundtrip"))
    finally:
        env.rm(d)
    return nontrivial(spec), ["foreign:" + case["reader"]], fails


UNREPRESENTABLE = ["a\x00b", "x\x0by", "\x1f", "bad￾", "\x08"]


def unrepresentable_cases():
    return st.fixed_dictionaries({
        "doc": S.doc_spec(max_depth=2, max_secs=2, max_props=2, text_classes=["plain"]),
        "bad": st.sampled_from(UNREPRESENTABLE),
        "where": st.sampled_from(["value", "unit", "secname", "author", "definition", "name_blank_sec",
                                  "name_blank_prop", "names_collide_sec", "names_collide_prop"]),
        "writer": st.sampled_from(WRITERS),
    })


def unrepresentable_body(case):
    """Text XML cannot hold: the writer must raise, nothing may be written in altered form."""
    doc = build.build_doc(case["doc"])
    sec = odml.Section(name="holder", type="t", parent=doc)
    prop = odml.Property(name="p", values=["ok"], parent=sec)
    bad = case["bad"]
    pad = [" ", "\t", "\n", "  "][len(bad) % 4]
    if case["where"] == "name_blank_sec":
        odml.Section(name=pad, type="t", parent=sec)
    elif case["where"] == "name_blank_prop":
        odml.Property(name=pad + pad, values=[1], parent=sec)
    elif case["where"] == "names_collide_sec":
        # distinct names that XML cannot tell apart: it does not keep surrounding whitespace
        odml.Section(name="twin", type="t", parent=sec)
        odml.Section(name="twin" + pad, type="t", parent=sec)
    elif case["where"] == "names_collide_prop":
        odml.Property(name=pad + "p", values=[2], parent=sec)
    elif case["where"] == "value":
        prop.values = ["fine", bad]
    elif case["where"] == "unit":
        prop.unit = bad
    elif case["where"] == "secname":
        sec.name = "n" + bad
    elif case["where"] == "author":
        doc.author = bad
    else:
        sec.definition = bad
    expected = snap.content(doc)
    d = env.fresh_dir("c01u")
    path = os.path.join(d, "doc.xml")
    fails = []
    try:
        try:
            text, wpath, option = write(doc, case["writer"], "plain", path)
        except Exception:
            if os.path.exists(path):
                fails.append(failure("xml.unrepresentable_left_file", "writer raised but left a file behind",
                                     writer=case["writer"]))
            return True, ["unrepresentable:raised"], fails
        # written: then it must load back unaltered
        try:
            loaded, _ = read(text, wpath, "xmlreader_lenient", False)
            fails.extend(compare(expected, loaded, "xml.unrepresentable_altered"))
        except Exception as exc:
            fails.append(failure("xml.unrepresentable_altered", "document with %r in %s was written but the "
                                 "file cannot be read back: %r" % (bad, case["where"], str(exc)[:100])))
    finally:
        env.rm(d)
    return True, ["unrepresentable:written"], fails


def plan(tier):
    if tier == "quick":
        return ([{"name": "rt%d" % i, "type": "rt", "n": 160, "depth": 3} for i in range(10)] +
                [{"name": "foreign%d" % i, "type": "foreign", "n": 120, "depth": 2} for i in range(4)] +
                [{"name": "unrep%d" % i, "type": "unrep", "n": 40} for i in range(2)])
    return ([{"name": "rt%d" % i, "type": "rt", "n": 3000, "depth": 4} for i in range(11)] +
            [{"name": "foreign%d" % i, "type": "foreign", "n": 2500, "depth": 3} for i in range(4)] +
            [{"name": "unrep", "type": "unrep", "n": 1500}])


def run(shard, seed, ctx):
    if shard["type"] == "rt":
        hyp.drive(ctx, "rt", cases(shard["depth"]), body, shard["n"], seed)
    elif shard["type"] == "foreign":
        hyp.drive(ctx, "foreign", foreign_cases(shard["depth"]), foreign_body, shard["n"], seed)
    else:
        hyp.drive(ctx, "unrep", unrepresentable_cases(), unrepresentable_body, shard["n"], seed)


def replay(kind, case):
    if kind == "rt":
        return body(case)[2]
    if kind == "foreign":
        return foreign_body(case)[2]
    return unrepresentable_body(case)[2]
