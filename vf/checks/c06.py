"""C06 - a refused operation changes nothing."""
import os

from hypothesis import strategies as st

import odml

from .. import build, env, hyp, snap, spec as S, tree_engine as T, value_engine as V
from ..core import failure

PROPERTY = "C06"
LEVEL = "fault_enumeration"
RULE = ("(1) tree-editing histories biased towards failing pre-states (targeted steps construct: name "
        "clash at destination via append/insert/parent=/item assignment/rename/create_*/constructor, "
        "destination inside the moved subtree, duplicate inside an extend argument, invalid cardinality "
        "passed to a constructor together with parent=, malformed id for new_id, ill-typed objects); "
        "(2) value-editing histories (unconvertible values through every route, invalid dtype, strict "
        "mismatches, out-of-range index); (3) a scenario table run on generated context documents: "
        "invalid date, non-numeric uncertainty, every invalid cardinality of the C09 grid, unresolvable "
        "link, unfetchable include, include path missing in the fetched file, link/include both set, "
        "strict merge conflict below the first sibling, unconvertible merge value, wrong merge argument, "
        "remove of a non-child. Oracle: identity snapshot of every object of the universe before == after "
        "whenever the call raised. Non-trivial = a step that raised in a universe with >= 2 roots and >= 3 "
        "objects; distinct = distinct history / (scenario, context) pair")
ASSUMPTIONS = ["successful calls are unconstrained here", "only content-level faults are injected (no OS errors)"]

ATOMIC_VALUE_CLAUSES = {"values.refused_changed", "values.other_changed", "atomic.changed"}


def tree_body(history):
    flags, classes, fails = T.run_history(history, want=("atomic",))
    return flags["refused"] >= 1, classes + ["cell:" + c for c in flags["atomic_cells"]], fails


def value_body(history):
    flags, classes, fails = V.run_history(history, want=("values", "atomic"), only=ATOMIC_VALUE_CLAUSES)
    return flags["refused_conv"] >= 1, ["cell:" + c for c in flags["cells"]], fails


# ------------------------------------------------------------------------------------
# scenario table

BAD_CARDS = [-1, (2, 1), (-1, 2), (1, -1), "1", "(1, 2)", 1.5, (1,), (1, 2, 3), [3, 2], (None, -2)]

SCENARIOS = ["doc_date", "doc_date_ctor", "uncertainty", "sec_card", "prop_card", "val_card",
             "sec_card_method", "link_unresolvable", "include_unfetchable", "include_path_missing",
             "link_when_include", "include_when_link", "merge_strict_conflict", "merge_unconvertible",
             "merge_wrong_kind", "remove_non_child", "remove_wrong_kind", "extend_ill_typed",
             "extend_not_iterable", "new_id_bad", "prop_parent_doc", "sec_parent_prop",
             "append_scalar", "setitem_wrong_kind", "setitem_out_of_range", "reorder_detached",
             "values_unconvertible", "dtype_unconvertible", "create_property_bad_values",
             "merge_unconvertible_empty_typed", "link_bad_after_good", "link_merge_refused",
             "include_merge_refused", "include_bad_after_good", "link_difftype_refused",
             "merge_difftype_deep", "link_difftype_deep", "merge_strict_multiline", "merge_casetype",
             "relink_after_target_edit", "ctor_with_dependency", "extend_after_rename",
             "link_to_document", "merge_text_uncertainty"]


def _secs(doc):
    return [o for o in snap.reachable([doc]) if snap.kind(o) == "sec"]


def _props(doc):
    return [o for o in snap.reachable([doc]) if snap.kind(o) == "prop"]


def scenario_body(case):
    spec, name, a, b = case["doc"], case["scenario"], case["a"], case["b"]
    doc = build.build_doc(spec)
    other = odml.Section(name="other-root", type="t")
    odml.Property(name="op", values=[1, 2], unit="mV", parent=other)
    osub = odml.Section(name="osub", type="t", parent=other)
    odml.Property(name="deep", values=["x"], unit="s", definition="d one", parent=osub)
    secs = _secs(doc)
    props = _props(doc)
    if not secs:
        secs = [odml.Section(name="only", type="t", parent=doc)]
    if not props:
        props = [odml.Property(name="onlyp", values=[1], parent=secs[0])]
    sec = secs[a % len(secs)]
    prop = props[a % len(props)]
    universe = snap.reachable([doc, other])
    before = snap.identity(universe)
    raised = None
    tmpdir = None

    def bad_card():
        return BAD_CARDS[b % len(BAD_CARDS)]

    try:
        if name == "doc_date":
            doc.date = ["not a date", "2020-13-01", "01.02.2020", 5][b % 4]
        elif name == "doc_date_ctor":
            odml.Document(date="31/12/2020")
        elif name == "uncertainty":
            prop.uncertainty = ["abc", "1,5", "one"][b % 3]
        elif name == "sec_card":
            sec.sec_cardinality = bad_card()
        elif name == "prop_card":
            sec.prop_cardinality = bad_card()
        elif name == "val_card":
            prop.val_cardinality = bad_card()
        elif name == "sec_card_method":
            sec.set_sections_cardinality(3, 1)
        elif name == "link_unresolvable":
            sec.link = ["/no/such/section", "../../../../../x", "nochild"][b % 3]
        elif name == "include_unfetchable":
            sec.include = "file:///nonexistent-%d/t.xml#/x" % b
        elif name == "include_path_missing":
            tmpdir = env.fresh_dir("c06")
            path = os.path.join(tmpdir, "inc.xml")
            d2 = odml.Document()
            odml.Section(name="there", type="t", parent=d2)
            odml.save(d2, path)
            sec.include = "file://%s#/not-there" % path
        elif name == "link_when_include":
            tgt = odml.Section(name="lw", type="t", include="file:///nonexistent/t.xml#/x")
            universe.append(tgt)
            before = snap.identity(universe)
            tgt.link = "/x"
        elif name == "include_when_link":
            tgt = odml.Section(name="lw", type="t", link="/x")
            universe.append(tgt)
            before = snap.identity(universe)
            tgt.include = "file:///nonexistent/t.xml#/x"
        elif name == "merge_strict_conflict":
            src = other.clone()
            universe.extend(snap.reachable([src]))
            src.sections[0].properties[0].unit = "kg"          # conflict below the first child
            src.properties[0].definition = "filled from src"   # would be filled before the conflict is met
            odml.Property(name="new-from-src", values=[5], parent=src)
            before = snap.identity(universe)
            other.merge(src, strict=True)
        elif name == "merge_unconvertible":
            src = other.clone()
            universe.extend(snap.reachable([src]))
            src.properties[0].dtype = "string"
            src.properties[0].values = ["not-an-int"]
            src.sections[0].properties[0].reference = "filled"
            before = snap.identity(universe)
            other.merge(src, strict=bool(b % 2))
        elif name == "merge_unconvertible_empty_typed":
            dest = odml.Property(name="typed-empty", dtype=["int", "date", "boolean"][b % 3], parent=other)
            src = other.clone()
            universe.append(dest)
            universe.extend(snap.reachable([src]))
            sp = src.properties["typed-empty"]
            sp.dtype = "string"
            sp.values = ["abc"]
            sp.unit = "kg"
            sp.definition = "from src"
            src.properties[0].reference = "filled earlier"
            before = snap.identity(universe)
            if b % 2:
                other.merge(src, strict=False)
            else:
                dest.merge(sp, strict=False)
        elif name in ("link_bad_after_good", "link_merge_refused", "include_merge_refused",
                      "include_bad_after_good", "link_difftype_refused"):
            tgt = odml.Section(name="link-target", type="t", parent=doc)
            odml.Property(name="p", values=["abc"], dtype="string", unit="kg", parent=tgt)
            odml.Section(name="tsub", type="t", parent=tgt)
            lnk = odml.Section(name="linking", type="t", parent=sec if b % 2 else doc)
            if name.endswith("merge_refused"):
                odml.Property(name="p", values=[1], dtype="int", parent=lnk)
            if name == "link_difftype_refused":
                odml.Section(name="tsub", type="another-type", parent=lnk)
            if name.startswith("include"):
                tmpdir = env.fresh_dir("c06")
                path = os.path.join(tmpdir, "inc.xml")
                d2 = odml.Document()
                t2 = tgt.clone()
                d2.append(t2)
                odml.save(d2, path)
                good = "file://%s#/link-target" % path
                bad = ["file://%s#/nowhere" % path, "file:///nonexistent-%d/x.xml#/a" % b][b % 2]
            else:
                good = "/link-target"
                bad = ["/nowhere", "../../../nope", "tsub/none"][b % 3]
            if name.endswith("bad_after_good"):
                if name.startswith("include"):
                    lnk.include = good
                else:
                    lnk.link = good
                if not lnk.is_merged:
                    raise RuntimeError("scenario setup: link was not resolved")
            universe = snap.reachable([doc, other])
            before = snap.identity(universe)
            target_value = bad if name.endswith("bad_after_good") else good
            if name.startswith("include"):
                lnk.include = target_value
            else:
                lnk.link = target_value
        elif name in ("merge_difftype_deep", "link_difftype_deep", "merge_casetype"):
            # dest and src share a child (same name and type); below it a grandchild with the same
            # name but another type; src also carries things that would be taken over first
            dest = odml.Section(name="deep-dest", type="t", parent=doc)
            dchild = odml.Section(name="shared", type="t", parent=dest)
            odml.Section(name="clash", type="TypeOne" if name == "merge_casetype" else "one", parent=dchild)
            src = odml.Section(name="deep-src", type="t", definition="src definition", parent=doc)
            odml.Property(name="early", values=[1], parent=src)
            odml.Section(name="early-sec", type="t", parent=src)
            schild = odml.Section(name="shared", type="t", reference="src reference", parent=src)
            odml.Property(name="early-deep", values=[2], parent=schild)
            odml.Section(name="clash", type="typeone" if name == "merge_casetype" else "two", parent=schild)
            if b % 2:
                # one level deeper
                d2 = odml.Section(name="shared2", type="t", parent=dchild)
                odml.Section(name="clash2", type="one", parent=d2)
                s2 = odml.Section(name="shared2", type="t", parent=schild)
                odml.Property(name="early-deeper", values=[3], parent=s2)
                odml.Section(name="clash2", type="two", parent=s2)
            universe = snap.reachable([doc, other])
            before = snap.identity(universe)
            if name == "link_difftype_deep":
                dest.link = "/deep-src"
            else:
                dest.merge(src, strict=bool(b % 3))
        elif name == "merge_strict_multiline":
            dest = odml.Section(name="ml-dest", type="t", parent=doc)
            odml.Property(name="note", values=["first"], dtype="string", parent=dest)
            src = odml.Section(name="ml-src", type="t", definition="taken over first", parent=doc)
            odml.Property(name="before", values=[1], parent=src)
            odml.Property(name="note", values=["line one\nline two"], dtype="string", unit="u", definition="d",
                          parent=src)
            universe = snap.reachable([doc, other])
            before = snap.identity(universe)
            dest.merge(src, strict=True)
        elif name == "relink_after_target_edit":
            # a resolved link is resolved once more after its target became unmergeable
            target = odml.Section(name="rl-target", type="t", definition="target def", parent=doc)
            odml.Property(name="tp", values=[1, 2], parent=target)
            odml.Section(name="tsub", type="t", parent=target)
            holder = odml.Section(name="rl-holder", type="t", parent=doc)
            lk = odml.Section(name="rl-linking", type="t", parent=holder)
            odml.Property(name="own", values=[5], dtype="int", parent=lk)
            odml.Section(name="ownsub", type="t", parent=lk)
            lk.link = "/rl-target"
            if not lk.is_merged:
                raise RuntimeError("scenario setup: link not resolved")
            if b % 2:
                odml.Property(name="own", values=["not a number"], dtype="string", parent=target)
            else:
                odml.Section(name="ownsub", type="other-type", parent=target)
            universe = snap.reachable([doc, other])
            before = snap.identity(universe)
            route = (b // 2) % 3
            if route == 0:
                lk.link = lk.link
            elif route == 1:
                lk.link = "/rl-target"
            else:
                doc.finalize()
        elif name == "ctor_with_dependency":
            # a constructor that validates its arguments after it attached the object must not leave it there
            holder = odml.Section(name="dep-holder", type="t", parent=doc)
            odml.Property(name="target", values=[[1, 2], [1.5], ["2020-01-01"], [True], ["x"]][b % 5],
                          dtype=["int", "float", "date", "boolean", "string"][b % 5], parent=holder)
            universe = snap.reachable([doc, other])
            before = snap.identity(universe)
            dep = ["target", "missing", 5, "target"][(b // 5) % 4]
            depval = ["not convertible", "", None, "2", 7, [1]][(b // 3) % 6]
            odml.Property(name="dependent", values=[1], parent=holder, dependency=dep, dependency_value=depval)
        elif name == "extend_after_rename":
            # whatever a container remembers about its children's names has to follow renames
            for cont in (doc, odml.Section(name="ear-holder", type="t", parent=doc)):
                cont.extend([odml.Section(name="ear-%d" % j, type="t") for j in range(2)])
                cont.sections["ear-0"].name = "ear-renamed"
            cont = doc if b % 2 else doc.sections["ear-holder"]
            ok1 = odml.Section(name="ear-ok1", type="t", parent=other)
            ok2 = odml.Section(name="ear-ok2", type="t")
            clash = odml.Section(name="ear-renamed", type="u")
            universe = snap.reachable([doc, other]) + [ok2, clash]
            before = snap.identity(universe)
            cont.extend([ok1, ok2, clash])
        elif name == "link_to_document":
            # a path that resolves to the Document is no link target
            top = odml.Section(name="ltd-top", type="t", parent=doc)
            odml.Property(name="own", values=[1], parent=top)
            sub = odml.Section(name="ltd-sub", type="t", parent=top)
            universe = snap.reachable([doc, other])
            before = snap.identity(universe)
            if b % 3 == 0:
                top.link = ".."
            elif b % 3 == 1:
                sub.link = "../.."
            else:
                top.link = "/"
        elif name == "merge_text_uncertainty":
            # an uncertainty given to the constructor as text that is no number is kept as it is (the
            # repository's tests pin this); a merge that cannot take it over has to say so before it starts
            dest = odml.Section(name="mtu", type="t", parent=doc)
            odml.Property(name="p", values=[1], parent=dest)
            src = odml.Section(name="mtu", type="t", definition="from src", parent=other)
            odml.Property(name="before", values=[1], parent=src)
            odml.Property(name="p", values=[2], uncertainty=["abc", "n/a", "+-3"][b % 3], value_origin="vo",
                          unit="mV", parent=src)
            universe = snap.reachable([doc, other])
            before = snap.identity(universe)
            if b % 2:
                dest.merge(src, strict=bool(b % 4 == 1))
            else:
                dest.properties["p"].merge(src.properties["p"], strict=bool(b % 4 == 0))
        elif name == "merge_wrong_kind":
            if b % 2:
                other.properties[0].merge(sec)
            else:
                other.properties[0].merge("text")
        elif name == "remove_non_child":
            sec.remove(other.sections[0] if b % 2 else other.properties[0])
        elif name == "remove_wrong_kind":
            if b % 2:
                doc.remove(prop)
            else:
                sec.remove("name")
        elif name == "extend_ill_typed":
            fresh = odml.Section(name="fresh-%d" % b, type="t")
            universe.append(fresh)
            before = snap.identity(universe)
            sec.extend([fresh, 5, odml.Section(name="never", type="t")])
        elif name == "extend_not_iterable":
            sec.extend(5)
        elif name == "new_id_bad":
            (sec if b % 2 else prop).new_id(["x", "1234", "", "zzzzzzzz-0000-4000-8000-000000000000"][b % 4])
        elif name == "prop_parent_doc":
            prop.parent = doc if b % 2 else 5
        elif name == "sec_parent_prop":
            sec.parent = prop if b % 2 else "doc"
        elif name == "append_scalar":
            (doc if b % 2 else sec).append([5, "x", [sec], None][b % 4])
        elif name == "setitem_wrong_kind":
            if sec.sections:
                sec.sections[0] = prop
            else:
                doc.sections[0] = prop
        elif name == "setitem_out_of_range":
            doc.sections[len(doc.sections) + b] = other.sections[0]
        elif name == "reorder_detached":
            other.reorder(b)
        elif name == "values_unconvertible":
            prop.dtype  # noqa
            tgt = odml.Property(name="vp", values=[1, 2], dtype="int", parent=other.sections[0])
            universe.append(tgt)
            before = snap.identity(universe)
            route = b % 5
            if route == 0:
                tgt.values = [3, "x"]
            elif route == 1:
                tgt.append("x")
            elif route == 2:
                tgt.extend([4, "y"], strict=False)
            elif route == 3:
                tgt[0] = "z"
            else:
                tgt.insert(1, "q")
        elif name == "dtype_unconvertible":
            tgt = odml.Property(name="vp", values=["1", "x"], dtype="string", parent=other.sections[0])
            universe.append(tgt)
            before = snap.identity(universe)
            tgt.dtype = ["int", "date", "2-tuple", "boolean", "nonsense"][b % 5]
        elif name == "create_property_bad_values":
            sec.create_property("cp-%d" % b, values=["x"], dtype="int")
        else:
            raise RuntimeError("unknown scenario " + name)
    except RuntimeError:
        raise
    except Exception as exc:  # the refusal
        raised = exc
    finally:
        if tmpdir:
            env.rm(tmpdir)
    fails = []
    classes = ["scenario:%s:%s" % (name, type(raised).__name__ if raised is not None else "accepted")]
    if raised is not None:
        after = snap.identity(universe)
        d = snap.identity_diff(before, after)
        if d:
            i0, k0, key0, x0, y0 = d[0]
            fails.append(failure("atomic.changed", "scenario %s raised %s(%s) but %s #%d changed: %s %r -> %r"
                                 % (name, type(raised).__name__, str(raised)[:60], k0, i0, key0, x0, y0),
                                 op=name, key=key0, objkind=k0))
        # no half-constructed object in any child list
        now = snap.reachable([doc, other])
        extra = [o for o in now if all(o is not u for u in universe)]
        if extra:
            fails.append(failure("atomic.half_constructed", "scenario %s raised %s but %d new object(s) are "
                                 "reachable from the documents" % (name, type(raised).__name__, len(extra)),
                                 op=name))
    return raised is not None, classes, fails


def scenario_cases(name, max_depth=2):
    return st.fixed_dictionaries({
        "doc": S.doc_spec(max_depth=max_depth, max_secs=2, max_props=2, tuples=False,
                          text_classes=["plain", "comma"]),
        "scenario": st.just(name),
        "a": st.integers(0, 7), "b": st.integers(0, 59)})


def plan(tier):
    if tier == "quick":
        return ([{"name": "tree%d" % i, "type": "tree", "n": 900, "steps": 25} for i in range(7)] +
                [{"name": "value%d" % i, "type": "value", "n": 900, "steps": 14} for i in range(4)] +
                [{"name": "scen%d" % i, "type": "scen", "n": 60, "which": SCENARIOS[i::5]} for i in range(5)])
    return ([{"name": "tree%d" % i, "type": "tree", "n": 20000, "steps": 60} for i in range(7)] +
            [{"name": "value%d" % i, "type": "value", "n": 20000, "steps": 24} for i in range(4)] +
            [{"name": "scen%d" % i, "type": "scen", "n": 2500, "which": SCENARIOS[i::5]} for i in range(5)])


def run(shard, seed, ctx):
    if shard["type"] == "tree":
        hyp.drive(ctx, "tree", T.histories(shard["steps"]), tree_body, shard["n"], seed)
    elif shard["type"] == "value":
        hyp.drive(ctx, "value", V.histories(shard["steps"]), value_body, shard["n"], seed)
    else:
        for j, name in enumerate(shard["which"]):
            hyp.drive(ctx, "scenario", scenario_cases(name), scenario_body, shard["n"], seed + j)


def replay(kind, case):
    if kind == "tree":
        return tree_body([list(s) for s in case])[2]
    if kind == "value":
        return value_body([list(s) for s in case])[2]
    return scenario_body(case)[2]
