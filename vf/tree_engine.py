"""Interpreter for editing histories over a universe of attached/detached objects.

Shared by C03 (tree.*), C04 (names.*) and C06 (atomic.*).  A history is plain data:
a list of steps ``[op, a, b, c, name, flag]``; integer arguments address objects of the
universe modulo its size, so every object can be the argument of every operation,
including ill-typed ones.  An exception raised by the library is an *outcome* ("refused").
"""
import uuid

from hypothesis import strategies as st

import odml

from . import inv, snap
from .core import failure
from .snap import kind

NAMES = ["a", "b", "c", "7"]
BLANKS = [None, "", " ", "\t", " \n "]
TYPES = ["t", "t", "u"]
MAX_UNIVERSE = 22

ID_TABLE = [
    ("valid", "1a2b3c4d-0000-4000-8000-00000000000a"),
    ("upper", "1A2B3C4D-0000-4000-8000-00000000000B"),
    ("braced", "{1a2b3c4d-0000-4000-8000-00000000000c}"),
    ("hex32", "1a2b3c4d00004000800000000000000d"),
    ("urn", "urn:uuid:1a2b3c4d-0000-4000-8000-00000000000e"),
    ("truncated", "1a2b3c4d-0000-4000-8000"),
    ("garbage", "not-a-uuid"),
    ("empty", ""),
    ("blank", "  "),
    ("long", "1a2b3c4d-0000-4000-8000-00000000000a0"),
]

PLAIN_OPS = ["new_sec", "new_prop", "new_sec_parent", "new_prop_parent", "create_section",
             "create_property", "append", "append", "insert", "extend", "remove", "set_parent",
             "set_parent", "set_parent_none", "setitem", "setitem", "reorder", "rename", "rename",
             "rename_empty", "clone_attach", "merge", "link", "clean", "new_id", "new_doc",
             "ctor_id", "ctor_noname"]
TARGETED_OPS = ["x_clash_append", "x_clash_parent", "x_clash_insert", "x_clash_rename",
                "x_clash_setitem", "x_cycle_parent", "x_cycle_append", "x_attached_append",
                "x_attached_insert", "x_extend_dup", "x_ctor_bad_card", "x_ctor_clash",
                "x_setitem_own", "x_reorder_neg", "x_clash_create", "x_extend_clash", "x_insert_badpos", "x_reorder_badpos"]

STEP = st.tuples(st.sampled_from(PLAIN_OPS + TARGETED_OPS),
                 st.integers(0, 40), st.integers(0, 40), st.integers(-8, 10),
                 st.sampled_from(NAMES), st.booleans()).map(list)


def histories(max_steps=25):
    return st.lists(STEP, min_size=1, max_size=max_steps)


class Engine(object):
    def __init__(self):
        self.U = []
        self.log = []
        self._seed()

    # -- setup -----------------------------------------------------------------------
    def add(self, obj):
        if obj is not None and len(self.U) < 64 and all(o is not obj for o in self.U):
            self.U.append(obj)
        return obj

    def _seed(self):
        d0 = self.add(odml.Document())
        a = self.add(odml.Section(name="a", type="t"))
        b = self.add(odml.Section(name="b", type="t"))
        c = self.add(odml.Section(name="c", type="u"))
        d0.append(a)
        d0.append(b)
        d0.append(c)
        ab = self.add(odml.Section(name="b", type="t"))
        a.append(ab)
        a.append(self.add(odml.Section(name="c", type="t")))
        self.add(odml.Property(name="a", values=[1], parent=a))
        self.add(odml.Property(name="b", values=["x"], parent=a))
        self.add(odml.Property(name="c", values=[1.5], parent=a))
        self.add(odml.Section(name="c", type="t"))          # detached Section
        self.add(odml.Property(name="a", values=[2]))       # detached Property
        d1 = self.add(odml.Document())
        self.add(odml.Section(name="a", type="u", parent=d1))

    # -- selectors -------------------------------------------------------------------
    def pick(self, i, kinds=None):
        pool = self.U if kinds is None else [o for o in self.U if kind(o) in kinds]
        if not pool:
            return None
        return pool[i % len(pool)]

    def full(self):
        return len(self.U) >= MAX_UNIVERSE

    @staticmethod
    def children(c, k):
        if k == "sec" and kind(c) in ("doc", "sec"):
            return list(list.__iter__(c.sections))
        if k == "prop" and kind(c) == "sec":
            return list(list.__iter__(c.properties))
        return []

    def clash_pairs(self):
        """(container, obj) with obj not a child of container and a same-named child there."""
        out = []
        for c in self.U:
            if kind(c) not in ("doc", "sec"):
                continue
            for o in self.U:
                k = kind(o)
                if k not in ("sec", "prop") or o is c:
                    continue
                sib = self.children(c, k)
                if any(s is o for s in sib):
                    continue
                if any(s.name == o.name for s in sib):
                    out.append((c, o))
        return out

    def descendants(self, s):
        out, stack, seen = [], [s], set()
        while stack:
            x = stack.pop()
            for ch in self.children(x, "sec"):
                if id(ch) not in seen:
                    seen.add(id(ch))
                    out.append(ch)
                    stack.append(ch)
        return out

    def would_clash(self, container, obj, exclude=None):
        """Model: attaching obj to container creates a same-kind sibling name clash."""
        k = kind(obj)
        if k not in ("sec", "prop") or kind(container) not in ("doc", "sec"):
            return False
        if k == "prop" and kind(container) != "sec":
            return False
        for s in self.children(container, k):
            if s is obj or s is exclude:
                continue
            if s.name == obj.name:
                return True
        return False

    # -- one step --------------------------------------------------------------------
    def step(self, st_):
        """Execute one step. Returns dict(op, raised, expect_refusal, note, cls)."""
        op, a, b, c, name, flag = st_
        info = {"op": op, "raised": None, "must_refuse": False, "cls": [], "skipped": False}
        U = self.U
        # what is handed to the library as the name: the text, or for "7" sometimes the int 7
        # (a name is always text; the model keeps working with the text)
        given = 7 if (name == "7" and (a + b + c) % 2 == 0) else name
        if given == 7 and op in ("new_sec", "new_prop", "new_sec_parent", "new_prop_parent", "create_section",
                                 "create_property", "rename", "ctor_id"):
            info["cls"].append("name:given_as_int")

        def call(fn):
            try:
                fn()
            except Exception as exc:  # refusal is an outcome
                info["raised"] = exc

        if op == "new_doc":
            if self.full():
                info["skipped"] = True
                return info
            call(lambda: self.add(odml.Document()))
        elif op == "new_sec":
            if self.full():
                info["skipped"] = True
                return info
            call(lambda: self.add(odml.Section(name=given, type=TYPES[a % 3])))
        elif op == "new_prop":
            if self.full():
                info["skipped"] = True
                return info
            call(lambda: self.add(odml.Property(name=given, values=[a % 5])))
        elif op in ("new_sec_parent", "new_prop_parent"):
            if self.full():
                info["skipped"] = True
                return info
            par = self.pick(a)
            probe = odml.Section(name=name, type="t") if op == "new_sec_parent" else \
                odml.Property(name=name, values=[1])
            info["must_refuse"] = self.would_clash(par, probe)
            before = {id(o) for o in self.all_children()}
            if op == "new_sec_parent":
                call(lambda: self.add(odml.Section(name=given, type=TYPES[b % 3], parent=par)))
            else:
                call(lambda: self.add(odml.Property(name=given, values=[1], parent=par)))
            if info["raised"] is None:
                pass
            else:
                self._adopt_new(before)
            info["cls"].append("ctor_parent:" + kind(par))
        elif op in ("create_section", "create_property", "x_clash_create"):
            if self.full():
                info["skipped"] = True
                return info
            if op == "x_clash_create":
                conts = [o for o in U if kind(o) == "sec" and (self.children(o, "sec") or self.children(o, "prop"))]
                if not conts:
                    info["skipped"] = True
                    return info
                cont = conts[a % len(conts)]
                kids = self.children(cont, "sec") + self.children(cont, "prop")
                kid = kids[b % len(kids)]
                name = kid.name
                given = 7 if (name == "7" and flag) else name
                which = "create_section" if kind(kid) == "sec" else "create_property"
            else:
                cont = self.pick(a, ("doc", "sec")) if op == "create_section" else self.pick(a, ("sec",))
                which = op
            if cont is None:
                info["skipped"] = True
                return info
            before = {id(o) for o in self.all_children()}
            if which == "create_section":
                info["must_refuse"] = any(s.name == name for s in self.children(cont, "sec"))
                call(lambda: self.add(cont.create_section(given, "t")))
            else:
                info["must_refuse"] = any(s.name == name for s in self.children(cont, "prop"))
                call(lambda: self.add(cont.create_property(given, [1])))
            if info["raised"] is not None:
                self._adopt_new(before)
        elif op in ("append", "x_clash_append", "x_cycle_append", "x_attached_append"):
            cont, obj = self._dest_and_obj(op, a, b)
            if cont is None:
                info["skipped"] = True
                return info
            info["must_refuse"] = self.would_clash(cont, obj)
            self._classify_attach(info, cont, obj)
            call(lambda: cont.append(obj))
        elif op in ("insert", "x_clash_insert", "x_attached_insert", "x_insert_badpos"):
            cont, obj = self._dest_and_obj("x_attached_append" if op == "x_insert_badpos"
                                           else op.replace("insert", "append"), a, b)
            if op == "x_insert_badpos":
                # a position that is no index: the list itself refuses it, after all odML checks passed
                c = [None, "0", 1.5, "first"][c % 4]
                info["cls"].append("insert:position_not_an_index")
            if cont is None or kind(cont) not in ("doc", "sec"):
                info["skipped"] = True
                return info
            info["must_refuse"] = self.would_clash(cont, obj)
            self._classify_attach(info, cont, obj)
            call(lambda: cont.insert(c, obj))
        elif op in ("extend", "x_extend_dup", "x_extend_clash"):
            cont = self.pick(a, ("doc", "sec"))
            if cont is None:
                info["skipped"] = True
                return info
            if op == "x_extend_dup":
                if len(U) + 2 > 64:
                    info["skipped"] = True
                    return info
                k1 = odml.Section(name=name, type="t") if flag or kind(cont) == "doc" else odml.Property(name=name, values=[1])
                k2 = odml.Section(name=name, type="u") if kind(k1) == "sec" else odml.Property(name=name, values=[2])
                first = odml.Section(name="zz%d" % len(U), type="t")
                self.add(first), self.add(k1), self.add(k2)
                members = [first, k1, k2]
                info["must_refuse"] = True
                info["cls"].append("extend:inner_duplicate")
            elif op == "x_extend_clash":
                pairs = [(cc, o) for (cc, o) in self.clash_pairs() if cc is cont]
                fresh = self.add(odml.Section(name="zy%d" % len(U), type="t")) if len(U) < 60 else None
                members = [m for m in [fresh] + [o for (_, o) in pairs[:2]] if m is not None]
                info["must_refuse"] = bool(pairs)
                info["cls"].append("extend:clash_existing")
            else:
                members = [self.pick(b), self.pick(c + 3), self.pick(a + b)][: 1 + (b % 3)]
                names = [(kind(m), m.name) for m in members if kind(m) in ("sec", "prop")]
                info["must_refuse"] = any(self.would_clash(cont, m) for m in members) or \
                    len(set(names)) != len(names)
                if any(kind(m) == "doc" for m in members) or len({id(m) for m in members}) != len(members):
                    info["must_refuse"] = False  # other refusal reasons / same object twice
            call(lambda: cont.extend(members))
        elif op == "remove":
            cont = self.pick(a, ("doc", "sec"))
            obj = self.pick(b)
            if cont is None:
                info["skipped"] = True
                return info
            call(lambda: cont.remove(obj))
        elif op in ("set_parent", "x_clash_parent", "x_cycle_parent"):
            if op == "x_clash_parent":
                pairs = self.clash_pairs()
                if not pairs:
                    info["skipped"] = True
                    return info
                cont, obj = pairs[a % len(pairs)]
            elif op == "x_cycle_parent":
                secs = [o for o in U if kind(o) == "sec"]
                if not secs:
                    info["skipped"] = True
                    return info
                obj = secs[a % len(secs)]
                desc = [obj] + self.descendants(obj)
                cont = desc[b % len(desc)]
                info["cls"].append("attach:into_own_subtree")
            else:
                obj = self.pick(a, ("sec", "prop"))
                cont = self.pick(b)
            if obj is None:
                info["skipped"] = True
                return info
            info["must_refuse"] = self.would_clash(cont, obj)
            self._classify_attach(info, cont, obj)

            def do():
                obj.parent = cont
            call(do)
        elif op == "set_parent_none":
            obj = self.pick(a, ("sec", "prop"))
            if obj is None:
                info["skipped"] = True
                return info

            def do():
                obj.parent = None
            call(do)
        elif op in ("setitem", "x_clash_setitem", "x_setitem_own"):
            if op == "x_clash_setitem":
                cands = []
                for cc in U:
                    for k in ("sec", "prop"):
                        kids = self.children(cc, k)
                        if len(kids) >= 2:
                            for o in U:
                                if kind(o) == k and all(o is not x for x in kids):
                                    for pos, kid in enumerate(kids):
                                        if any(x.name == o.name and x is not kid for x in kids):
                                            cands.append((cc, k, pos, o))
                if not cands:
                    info["skipped"] = True
                    return info
                cont, k, pos, obj = cands[a % len(cands)]
                lst = cont.sections if k == "sec" else cont.properties
                info["must_refuse"] = True
                info["cls"].append("setitem:clash_other_sibling")
                if flag:
                    pos = self.children(cont, k)[pos].name
                    info["cls"].append("setitem:key_is_name")
            elif op == "x_setitem_own":
                conts = [o for o in U if kind(o) in ("doc", "sec") and len(self.children(o, "sec")) >= 2]
                if not conts:
                    info["skipped"] = True
                    return info
                cont = conts[a % len(conts)]
                lst = cont.sections
                kids = self.children(cont, "sec")
                obj = kids[b % len(kids)]
                pos = c % len(kids)
                info["cls"].append("setitem:own_child")
            else:
                cont = self.pick(a, ("doc", "sec"))
                if cont is None:
                    info["skipped"] = True
                    return info
                use_props = flag and kind(cont) == "sec"
                lst = cont.properties if use_props else cont.sections
                obj = self.pick(b)
                pos = c
                k = kind(obj)
                kids = self.children(cont, k) if ((k == "prop") == use_props) else []
                if kids and -len(kids) <= pos < len(kids) and all(obj is not x for x in kids):
                    repl = kids[pos]
                    info["must_refuse"] = self.would_clash(cont, obj, exclude=repl)
                    if (a + b) % 2:
                        pos = repl.name
                        info["cls"].append("setitem:key_is_name")
            self._classify_attach(info, cont, obj)

            def do():
                lst[pos] = obj
            call(do)
        elif op in ("reorder", "x_reorder_neg", "x_reorder_badpos"):
            obj = self.pick(a, ("sec", "prop"))
            if op == "x_reorder_badpos":
                # a position that is no index, on an object that has siblings
                att = [o for o in U if kind(o) in ("sec", "prop") and o._parent is not None and
                       len(self.children(o._parent, kind(o))) >= 2]
                obj = att[a % len(att)] if att else None
            if obj is None:
                info["skipped"] = True
                return info
            idx = c if op == "reorder" else -1 - (b % 8)
            if op == "x_reorder_badpos":
                idx = [1.5, 0.0, None, "0", 0.5][b % 5]
                info["cls"].append("reorder:position_not_an_index")
            if isinstance(idx, int) and idx < 0:
                info["cls"].append("reorder:negative")
            call(lambda: obj.reorder(idx))
        elif op in ("rename", "x_clash_rename", "rename_empty"):
            if op == "x_clash_rename":
                cands = []
                for cc in U:
                    for k in ("sec", "prop"):
                        kids = self.children(cc, k)
                        if len(kids) >= 2:
                            cands.append((kids[a % len(kids)], kids[(a + 1 + b % (len(kids) - 1)) % len(kids)]))
                cands = [(x, y) for (x, y) in cands if x is not y]
                if not cands:
                    info["skipped"] = True
                    return info
                obj, other = cands[b % len(cands)]
                new = other.name
                info["must_refuse"] = True
                info["cls"].append("rename:to_sibling")
                if new == "7" and flag:
                    new = 7
                    info["cls"].append("rename:to_sibling_given_as_int")
            else:
                obj = self.pick(a, ("sec", "prop"))
                if obj is None:
                    info["skipped"] = True
                    return info
                new = given if op == "rename" else BLANKS[c % len(BLANKS)]
                if op == "rename_empty":
                    info["cls"].append("rename:none_or_empty" if not new else "rename:blank")
                par = obj._parent
                if new and par is not None:
                    sib = self.children(par, kind(obj))
                    info["must_refuse"] = any(s is not obj and s.name == str(new) for s in sib)
            old_id = obj.id

            def do():
                obj.name = new
            call(do)
            if info["raised"] is None and not new and obj.name != old_id:
                info["name_fallback_failed"] = (repr(new), obj.name)
        elif op == "clone_attach":
            if self.full():
                info["skipped"] = True
                return info
            src = self.pick(a, ("sec", "prop"))
            dst = self.pick(b, ("doc", "sec"))
            if src is None or dst is None:
                info["skipped"] = True
                return info
            try:
                cl = src.clone(keep_id=flag)
            except Exception as exc:
                info["raised"] = exc
                return info
            self.add(cl)
            for o in snap.reachable([cl]):
                self.add(o)
            info["must_refuse"] = self.would_clash(dst, cl)
            info["cls"].append("clone_attach")
            call(lambda: dst.append(cl))
        elif op == "merge":
            dst = self.pick(a, ("sec",))
            src = self.pick(b, ("sec",))
            if dst is None or src is None or dst is src:
                info["skipped"] = True
                return info
            if len(self.U) > 40:
                info["skipped"] = True
                return info
            # merging a Section with one of its own ancestors/descendants is outside what
            # merge is documented for; keep to unrelated trees
            if src in self.descendants(dst) or dst in self.descendants(src):
                info["skipped"] = True
                return info
            call(lambda: dst.merge(src, strict=flag))
            for o in snap.reachable([dst]):
                self.add(o)
        elif op == "link":
            src = self.pick(a, ("sec",))
            tgt = self.pick(b, ("sec",))
            if src is None or tgt is None or src is tgt:
                info["skipped"] = True
                return info
            if src in self.descendants(tgt) or tgt in self.descendants(src) or len(self.U) > 40:
                info["skipped"] = True
                return info
            if src.document is None or src.document is not tgt.document:
                path = "/nowhere/x"
            else:
                path = tgt.get_path()

            def do():
                src.link = path
            call(do)
            for o in snap.reachable([src]):
                self.add(o)
        elif op == "clean":
            obj = self.pick(a, ("doc", "sec"))
            if obj is None:
                info["skipped"] = True
                return info
            call(lambda: obj.clean())
        elif op == "new_id":
            obj = self.pick(a)
            label, text = ID_TABLE[b % len(ID_TABLE)]
            arg = None if c < 0 else text
            old = obj.id
            info["cls"].append("new_id:" + ("none" if arg is None else label))
            call(lambda: obj.new_id(arg))
            valid = arg is None or _valid_uuid(arg)
            if not valid and info["raised"] is None:
                info["bad_id_accepted"] = (arg, obj.id)
            if not valid and obj.id != old:
                info["bad_id_changed"] = (arg, old, obj.id)
            if valid and arg is not None and info["raised"] is None and obj.id != str(uuid.UUID(arg)):
                info["good_id_wrong"] = (arg, obj.id)
        elif op == "ctor_id":
            if self.full():
                info["skipped"] = True
                return info
            label, text = ID_TABLE[b % len(ID_TABLE)]
            info["cls"].append("ctor_id:" + label)
            which = a % 3
            made = []

            def do():
                if which == 0:
                    made.append(odml.Section(name=given, type="t", oid=text))
                elif which == 1:
                    made.append(odml.Property(name=given, values=[1], oid=text))
                else:
                    made.append(odml.Document(oid=text))
            call(do)
            if made:
                self.add(made[0])
                if _valid_uuid(text) and made[0].id != str(uuid.UUID(text)):
                    info["good_id_wrong"] = (text, made[0].id)
                if not _valid_uuid(text) and not inv.canonical_uuid(made[0].id):
                    info["bad_id_kept"] = (text, made[0].id)
        elif op == "ctor_noname":
            if self.full():
                info["skipped"] = True
                return info
            empty = BLANKS[c % len(BLANKS)]
            info["cls"].append("ctor:name_none_or_empty" if not empty else "ctor:name_blank")
            made = []
            cont = self.pick(b, ("sec",))

            def do():
                which = a % 4
                if which == 0:
                    made.append(odml.Section(name=empty, type="t"))
                elif which == 1:
                    made.append(odml.Property(name=empty, values=[1]))
                elif which == 2 and cont is not None:
                    made.append(cont.create_section(empty, "t"))
                elif cont is not None:
                    made.append(cont.create_property(empty, [1]))
            call(do)
            if made:
                self.add(made[0])
                if not empty and made[0].name != made[0].id:
                    info["name_fallback_failed"] = (repr(empty), made[0].name)
        elif op in ("x_ctor_bad_card", "x_ctor_clash"):
            if self.full():
                info["skipped"] = True
                return info
            par = self.pick(a, ("doc", "sec") if flag else ("sec",))
            if par is None:
                info["skipped"] = True
                return info
            before = {id(o) for o in self.all_children()}
            if op == "x_ctor_bad_card":
                nm = "fresh%d" % len(U)
                info["cls"].append("ctor:bad_cardinality_with_parent")
                bad = [(2, 1), (-1, 2), "x", (1, 2, 3)][b % 4]
                if flag or kind(par) == "doc":
                    if c % 2:
                        call(lambda: odml.Section(name=nm, type="t", parent=par, sec_cardinality=bad))
                    else:
                        call(lambda: odml.Section(name=nm, type="t", parent=par, prop_cardinality=bad))
                else:
                    call(lambda: odml.Property(name=nm, values=[1], parent=par, val_cardinality=bad))
            else:
                kids = self.children(par, "sec") + self.children(par, "prop")
                if not kids:
                    info["skipped"] = True
                    return info
                kid = kids[b % len(kids)]
                info["must_refuse"] = True
                info["cls"].append("ctor:clash_with_parent")
                if kind(kid) == "sec":
                    call(lambda: self.add(odml.Section(name=kid.name, type="u", parent=par)))
                else:
                    call(lambda: self.add(odml.Property(name=kid.name, values=[1], parent=par)))
            if info["raised"] is not None:
                self._adopt_new(before)
        else:
            raise ValueError("unknown op %r" % op)
        return info

    # -- helpers ---------------------------------------------------------------------
    def all_children(self):
        out = []
        for o in self.U:
            out.extend(self.children(o, "sec"))
            out.extend(self.children(o, "prop"))
        return out

    def _adopt_new(self, before_ids):
        """After a refused constructor: a half-constructed object that made it into a child
        list becomes part of the universe so the invariants see it."""
        for ch in self.all_children():
            if id(ch) not in before_ids:
                self.add(ch)

    def _dest_and_obj(self, op, a, b):
        U = self.U
        if op == "x_clash_append":
            pairs = self.clash_pairs()
            if not pairs:
                return None, None
            return pairs[a % len(pairs)]
        if op == "x_cycle_append":
            secs = [o for o in U if kind(o) == "sec"]
            if not secs:
                return None, None
            obj = secs[a % len(secs)]
            desc = [obj] + self.descendants(obj)
            return desc[b % len(desc)], obj
        if op == "x_attached_append":
            att = [o for o in U if kind(o) in ("sec", "prop") and o._parent is not None]
            if not att:
                return None, None
            obj = att[a % len(att)]
            conts = [cc for cc in U if kind(cc) == "sec" and cc is not obj._parent and cc is not obj
                     and not self.would_clash(cc, obj) and cc not in self.descendants(obj)]
            if not conts:
                return None, None
            return conts[b % len(conts)], obj
        cont = self.pick(a, ("doc", "sec"))
        obj = self.pick(b)
        return cont, obj

    def _classify_attach(self, info, cont, obj):
        k = kind(obj)
        if k in ("sec", "prop") and obj._parent is not None and obj._parent is not cont:
            info["cls"].append("attach:already_attached_elsewhere")
        if k in ("sec", "prop") and obj._parent is cont and cont is not None:
            info["cls"].append("attach:to_current_parent")
        if info["must_refuse"]:
            info["cls"].append("attach:clash_at_destination")
        if k == "sec" and kind(cont) == "sec" and (cont is obj or cont in self.descendants(obj)):
            info["cls"].append("attach:into_own_subtree")
        if kind(cont) not in ("doc", "sec") or k not in ("sec", "prop") or \
                (k == "prop" and kind(cont) == "doc"):
            info["cls"].append("attach:ill_typed")


def _valid_uuid(text):
    try:
        uuid.UUID(text)
        return True
    except (ValueError, AttributeError, TypeError):
        return False


def run_history(history, want=("tree", "names", "atomic")):
    """Interpret a history; after every step evaluate the requested clause families.

    Returns (nontrivial_flags: dict, classes: list, failures: list).  The history stops at
    the first step with a failure of any family (the state may be corrupt after it).
    """
    eng = Engine()
    classes = []
    fails = []
    refused = 0
    moved = 0
    clash_routes = set()
    atomic_cells = set()
    for i, st_ in enumerate(history):
        before = snap.identity(eng.U) if "atomic" in want else None
        n_before = len(eng.U)
        try:
            info = eng.step(st_)
        except Exception as exc:  # harness bug, not a library outcome
            raise RuntimeError("engine error at step %d %r: %r" % (i, st_, exc))
        if info["skipped"]:
            continue
        op = info["op"]
        raised = info["raised"]
        classes.append("%s:%s" % (op, "refused" if raised is not None else "ok"))
        classes.extend(info["cls"])
        if raised is not None:
            refused += 1
        elif "attach:already_attached_elsewhere" in info["cls"]:
            moved += 1
        step_fails = []
        tfails = inv.tree_failures(eng.U)
        if "tree" in want:
            for f in tfails:
                f["locus"].update(op=op, refused=raised is not None, step_classes=sorted(set(info["cls"])))
            step_fails.extend(tfails)
        if "names" in want:
            # (also on a tree that is no longer well formed: a child listed twice is a name clash too)
            nf = inv.name_failures(eng.U)
            for f in nf:
                f["locus"].update(op=op, refused=raised is not None, step_classes=sorted(set(info["cls"])))
            step_fails.extend(nf)
            if info["must_refuse"] and raised is None:
                step_fails.append(failure("names.clash_not_refused", "step %d %s: the operation would create "
                                          "a sibling name clash but did not raise" % (i, op), op=op,
                                          step_classes=sorted(set(info["cls"]))))
            for key in ("name_fallback_failed", "bad_id_accepted", "bad_id_changed", "good_id_wrong",
                        "bad_id_kept"):
                if key in info:
                    step_fails.append(failure("names." + key, "step %d %s: %r" % (i, op, info[key]), op=op))
            if info["must_refuse"] and op not in ("append", "x_clash_append"):
                clash_routes.add(op)
        if "atomic" in want and raised is not None:
            after = snap.identity(eng.U[:n_before])
            d = snap.identity_diff(before, after)
            extra = len(eng.U) - n_before
            # objects created by the harness itself for the call (extend members) are in U
            # before the call; anything adopted after a refused constructor is a leak
            cell = "%s/%s" % (op, type(raised).__name__)
            atomic_cells.add(cell)
            if d:
                i0, k0, key0, x0, y0 = d[0]
                step_fails.append(failure("atomic.changed", "step %d %s raised %s(%s) but %s #%d changed: "
                                          "%s %r -> %r" % (i, op, type(raised).__name__, str(raised)[:80],
                                                           k0, i0, key0, x0, y0),
                                          op=op, key=key0, objkind=k0,
                                          step_classes=sorted(set(info["cls"]))))
            elif extra and op in ("new_sec_parent", "new_prop_parent", "x_ctor_bad_card", "x_ctor_clash",
                                  "create_section", "create_property", "x_clash_create"):
                step_fails.append(failure("atomic.half_constructed", "step %d %s raised %s but a new object "
                                          "was added to a parent" % (i, op, type(raised).__name__),
                                          op=op, step_classes=sorted(set(info["cls"]))))
        if step_fails:
            for f in step_fails:
                f["locus"]["step"] = i
            fails.extend(step_fails)
            break
        if tfails:
            break  # state corrupt for the other families
    flags = {"refused": refused, "moved": moved, "clash_routes": sorted(clash_routes),
             "atomic_cells": sorted(atomic_cells)}
    return flags, classes, fails
