"""Deterministic scheduler for the loader threads of odml.terminology / odml.templates (C18).

The library's loader threads run as real threads that are only ever runnable one at a time.
A *choice sequence* (list of small ints) decides, at every scheduling point, which runnable
thread continues.  Scheduling points are exactly the granularity the property names:
accesses to the shared loaded/loading tables and thread start / run / join (plus lock
acquisition, should the library use locks from its ``threading`` name).

Choice 0 always means "the current thread continues" when it is runnable, so the empty
sequence is the schedule without preemption.
"""
import threading as real_threading
import traceback


class SchedAbort(BaseException):
    """Raised inside managed threads to unwind them when a run is aborted."""


class Deadlock(Exception):
    pass


class StepBound(Exception):
    pass


class SThread(object):
    """Stand-in for threading.Thread inside the library."""

    def __init__(self, sched, target=None, args=(), kwargs=None, name=None, daemon=None, group=None):
        self.sched = sched
        self.target = target
        self.args = args
        self.kwargs = kwargs or {}
        self.tid = len(sched.threads)
        self.name = name or "loader-%d" % self.tid
        self.started = False
        self.finished = False
        self.blocked_on = None
        self.go = real_threading.Event()
        self.real = None
        self.daemon = True
        sched.threads.append(self)

    # -- threading.Thread API used by the library ------------------------------------------
    def start(self):
        if self.started:
            raise RuntimeError("threads can only be started once")
        # the moment before the thread exists for others is a scheduling point of its own
        self.sched.yield_point("before_start")
        if self.started:
            raise RuntimeError("threads can only be started once")
        self.started = True
        self.real = real_threading.Thread(target=self._bootstrap, daemon=True)
        self.real.start()
        self.sched.trace.append(("start", self.sched.me().tid, self.tid))
        self.sched.yield_point("start")

    def join(self, timeout=None):
        if not self.started:
            raise RuntimeError("cannot join thread before it is started")
        me = self.sched.me()
        if me is self:
            raise RuntimeError("cannot join current thread")
        self.sched.trace.append(("join", me.tid, self.tid))
        self.sched.yield_point("join")
        while not self.finished:
            self.sched.block(me, self)

    def is_alive(self):
        return self.started and not self.finished

    # -- internals -----------------------------------------------------------------------
    def runnable(self):
        return self.started and not self.finished and self.blocked_on is None

    def _bootstrap(self):
        self.go.wait()
        sched = self.sched
        try:
            if sched.aborted:
                return
            sched.local.thread = self
            try:
                if self.target is not None:
                    self.target(*self.args, **self.kwargs)
            except SchedAbort:
                pass
            except BaseException as exc:  # an exception ending a thread is an observation
                sched.errors.append((self.name, type(exc).__name__, str(exc)[:200],
                                     traceback.format_exc()[-600:]))
        finally:
            sched.finish(self)


class SLock(object):
    """Lock / RLock whose blocking acquire is a scheduling point."""

    def __init__(self, sched, reentrant):
        self.sched = sched
        self.reentrant = reentrant
        self.owner = None
        self.count = 0

    def acquire(self, blocking=True, timeout=-1):
        sched = self.sched
        me = sched.me()
        sched.yield_point("lock")
        while self.owner is not None and not (self.reentrant and self.owner is me):
            if not blocking:
                return False
            sched.block(me, self)
        self.owner = me
        self.count += 1
        return True

    def release(self):
        self.count -= 1
        if self.count <= 0:
            self.owner = None
            self.count = 0
            for t in self.sched.threads:
                if t.blocked_on is self:
                    t.blocked_on = None
            # leaving a critical section is a scheduling point
            if self.sched.me() is not None and not self.sched.aborted:
                self.sched.yield_point("unlock")

    __enter__ = acquire

    def __exit__(self, *a):
        self.release()

    @property
    def finished(self):      # uniform interface for Scheduler.block
        return self.owner is None


class Shim(object):
    """What the library sees under the name ``threading``."""

    def __init__(self, sched):
        self._sched = sched

    def Thread(self, *a, **kw):
        return SThread(self._sched, *a, **kw)

    def Lock(self):
        return SLock(self._sched, False)

    def RLock(self):
        return SLock(self._sched, True)

    def current_thread(self):
        return self._sched.me()

    def __getattr__(self, name):
        return getattr(real_threading, name)


import sys

# An unbounded recursion in the library must end at the step bound (a clean abort), not in a
# RecursionError thrown at an arbitrary point inside the scheduler itself.
sys.setrecursionlimit(max(sys.getrecursionlimit(), 20000))
real_threading.stack_size(256 * 1024 * 1024)


class Scheduler(object):
    MAX_STEPS = 4000

    def __init__(self, choices=()):
        self.choices = list(choices)
        self.pos = 0
        self.decisions = []       # (n_options, chosen index, current was runnable)
        self.threads = []
        self.trace = []
        self.errors = []
        self.aborted = False
        self.deadlock = None
        self.stepbound = False
        self.steps = 0
        self.current = None
        self.local = real_threading.local()
        self.done = real_threading.Event()
        self.switches = 0

    # -- called from managed threads -------------------------------------------------------
    def me(self):
        return getattr(self.local, "thread", None)

    def managed(self):
        return self.me() is not None and not self.aborted

    def yield_point(self, label):
        me = self.me()
        if me is None:
            return
        if self.aborted:
            raise SchedAbort()
        self.steps += 1
        if self.steps > self.MAX_STEPS:
            self.stepbound = True
            self.abort()
            raise SchedAbort()
        nxt = self._choose(me)
        if nxt is not me:
            self.trace.append(("switch", me.tid, nxt.tid, label))
            self.switches += 1
            self._transfer(me, nxt)

    def block(self, me, target):
        """me cannot continue until target is finished / released."""
        if self.aborted:
            raise SchedAbort()
        me.blocked_on = target
        if isinstance(target, SThread) and target.finished:
            me.blocked_on = None
            return
        nxt = self._choose(me)
        if nxt is None:
            self.deadlock = "thread %s waits for %s and nothing else can run" % (
                me.name, getattr(target, "name", "a lock"))
            self.abort()
            raise SchedAbort()
        self.trace.append(("block", me.tid, nxt.tid))
        self._transfer(me, nxt)

    def finish(self, thread):
        thread.finished = True
        for t in self.threads:
            if t.blocked_on is thread:
                t.blocked_on = None
        if self.aborted:
            self._maybe_done()
            return
        nxt = self._choose(thread)
        if nxt is None:
            if any(t.started and not t.finished for t in self.threads):
                self.deadlock = "all remaining threads are blocked"
                self.abort()
            self._maybe_done()
            return
        self.current = nxt
        nxt.go.set()

    # -- internals ---------------------------------------------------------------------------
    def _choose(self, me):
        runnable = [t for t in self.threads if t.runnable()]
        order = ([me] if me in runnable else []) + [t for t in runnable if t is not me]
        if not order:
            return None
        if len(order) == 1:
            return order[0]
        c = self.choices[self.pos] if self.pos < len(self.choices) else 0
        self.pos += 1
        idx = c % len(order)
        self.decisions.append((len(order), idx, me in runnable))
        return order[idx]

    def _transfer(self, me, nxt):
        me.go.clear()
        self.current = nxt
        nxt.go.set()
        me.go.wait()
        if self.aborted:
            raise SchedAbort()

    def abort(self):
        self.aborted = True
        for t in self.threads:
            t.go.set()

    def _maybe_done(self):
        if all((not t.started) or t.finished for t in self.threads):
            self.done.set()

    # -- driver --------------------------------------------------------------------------------
    def run(self, program, timeout=60):
        """Run program() as the caller thread under this scheduler. Returns its result holder."""
        holder = {}

        def caller():
            holder["result"] = program()

        main = SThread(self, target=caller, name="caller")
        main.started = True
        main.real = real_threading.Thread(target=main._bootstrap, daemon=True)
        self.current = main
        main.real.start()
        main.go.set()
        finished = self.done.wait(timeout)
        if not finished:
            holder["harness_timeout"] = True
            self.abort()
            self.done.wait(5)
        for t in self.threads:
            if t.real is not None:
                t.real.join(2)
        return holder


def preemptions(decisions):
    return sum(1 for (n, idx, cur_runnable) in decisions if cur_runnable and idx != 0)


def explore(run_once, bound, limit=None):
    """Bounded exhaustive search over choice sequences, by increasing number of preemptions.

    run_once(choices) -> decisions list of the executed schedule.  Calls run_once for every
    schedule whose number of preemptions is <= bound: first the schedule without preemption,
    then all with one, then all with two, ... (breadth first in the number of preemptions and
    in the position of the last one), until ``limit`` runs were made.  Returns the count."""
    import collections
    count = 0
    level = collections.deque([[]])
    for depth in range(bound + 1):
        nxt = collections.deque()
        while level:
            prefix = level.popleft()
            decisions = run_once(prefix)
            count += 1
            if limit is not None and count >= limit:
                return count
            if decisions is None:        # the caller asks to stop (it has seen enough failures)
                return count
            chosen = [d[1] for d in decisions]
            # a run that hit the step bound has thousands of decisions: branch in its first part only
            for i in range(len(prefix), min(len(decisions), 600)):
                n, idx, cur_runnable = decisions[i]
                for alt in range(1, n):
                    new = chosen[:i] + [alt]
                    if cur_runnable:
                        nxt.append(new)          # one more preemption: next level
                    else:
                        level.append(new)        # a forced switch to another thread is free
        level = nxt
    return count
