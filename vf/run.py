"""CLI: ./check <ID> quick|thorough | --replay <file>

Runs the shards of one property's check on a process pool, merges what they report,
rewrites evidence/<ID>.json and prints the protocol lines.
"""
import collections
import glob
import importlib
import json
import multiprocessing as mp
import os
import sys
import time
import traceback

HERE = os.path.dirname(os.path.dirname(os.path.abspath(__file__)))


def _load(prop):
    return importlib.import_module("vf.checks.%s" % prop.lower())


def _seed_for(base, idx):
    return (int(base) * 1000003 + idx * 7919 + 17) % (2 ** 31)


ENVS = {
    # a process whose locale encoding is ASCII (POSIX "C" locale without the UTF-8 coercions of
    # PEP 538/540): what open() without encoding= uses there is what a cp1252 / latin-1 user gets
    "ascii_locale": {"PYTHONUTF8": "0", "PYTHONCOERCECLOCALE": "0", "LC_ALL": "C", "LANG": "C",
                     "PYTHONIOENCODING": "utf-8"},
}


def _in_env(fn, args, envname):
    """Run _worker/_replay_worker in a fresh interpreter with a different process environment."""
    import pickle, subprocess, tempfile
    d = tempfile.mkdtemp(prefix="vfsub_")
    try:
        with open(os.path.join(d, "in"), "wb") as fh:
            pickle.dump((fn, args), fh)
        e = dict(os.environ)
        e.update(ENVS[envname])
        e["VF_SUBENV"] = envname
        subprocess.run([sys.executable, "-m", "vf.run", "--sub", d], env=e, check=False,
                       stdout=subprocess.DEVNULL, stderr=subprocess.DEVNULL)
        with open(os.path.join(d, "out"), "rb") as fh:
            return pickle.load(fh)
    finally:
        import shutil
        shutil.rmtree(d, ignore_errors=True)


def _sub_main(d):
    import pickle
    with open(os.path.join(d, "in"), "rb") as fh:
        fn, args = pickle.load(fh)
    out = {"_worker": _worker, "_replay_worker": _replay_worker}[fn](args)
    with open(os.path.join(d, "out"), "wb") as fh:
        pickle.dump(out, fh)
    return 0


def _worker(args):
    prop, shard, seed, tier, idx = args
    if shard.get("env") and os.environ.get("VF_SUBENV") != shard["env"]:
        try:
            return _in_env("_worker", args, shard["env"])
        except BaseException:
            return {"shard": shard.get("name"), "error": traceback.format_exc(),
                    "evaluations": 0, "nt": set(), "samples": [], "classes": {},
                    "known_hits": {}, "known_cases": {}, "violations": [], "excluded": {},
                    "extra": {}, "notes": [], "wall_s": 0.0}
    from . import core, env
    env.silence()
    env.scratch()
    t0 = time.time()
    try:
        mod = _load(prop)
        ctx = core.Collector(prop, shard.get("name", "shard%d" % idx), seed, tier)
        env.reset_lib_state()
        mod.run(shard, seed, ctx)
        out = ctx.export()
        out["wall_s"] = time.time() - t0
        out["error"] = None
        return out
    except BaseException:
        return {"shard": shard.get("name"), "error": traceback.format_exc(),
                "evaluations": 0, "nt": set(), "samples": [], "classes": {},
                "known_hits": {}, "known_cases": {}, "violations": [], "excluded": {},
                "extra": {}, "notes": [], "wall_s": time.time() - t0}
    finally:
        env.cleanup()


def _replay_worker(args):
    prop, kind, case = args
    want = case.get("env") if isinstance(case, dict) else None
    if want and os.environ.get("VF_SUBENV") != want:
        try:
            return _in_env("_replay_worker", args, want)
        except BaseException:
            return {"error": traceback.format_exc(), "failures": [], "unmatched": [], "known": {}}
    from . import core, env
    env.silence()
    env.scratch()
    try:
        mod = _load(prop)
        ctx = core.Collector(prop, "replay", 0, "replay")
        env.reset_lib_state()
        try:
            with env.watchdog():
                fails = mod.replay(kind, case) or []
        except env.CaseHang:
            fails = [core.failure("hang.no_return", "the replayed case did not return within %d s"
                                  % env.HANG_SECONDS, kind=kind)]
        unmatched = ctx.case(case, False, (), fails, kind=kind)
        return {"error": None, "failures": core.jsonable(fails),
                "unmatched": core.jsonable(unmatched),
                "known": dict(ctx.known_hits)}
    except BaseException:
        return {"error": traceback.format_exc(), "failures": [], "unmatched": [], "known": {}}
    finally:
        env.cleanup()


def _write_replay(prop, seed, n, viol):
    d = os.path.join(HERE, "replays")
    os.makedirs(d, exist_ok=True)
    path = os.path.join(d, "%s-%s-%d.json" % (prop, seed, n))
    with open(path, "w") as fh:
        json.dump({"property": prop, "kind": viol["kind"], "case": viol["case"],
                   "failures": viol["failures"]}, fh, indent=1, sort_keys=True)
    return os.path.relpath(path, HERE)


def main(argv):
    if len(argv) < 2:
        print("usage: check <ID> quick|thorough | --replay <file>")
        return 2
    if argv[0] == "--sub":
        return _sub_main(argv[1])
    prop = argv[0].upper()
    mod = _load(prop)
    from . import findings

    if argv[1] == "--replay":
        with open(argv[2]) as fh:
            rec = json.load(fh)
        with mp.Pool(1) as pool:
            res = pool.map(_replay_worker, [(prop, rec["kind"], rec["case"])])[0]
        if res["error"]:
            print("harness error during replay:\n" + res["error"])
            return 2
        for fid in res["known"]:
            print("KNOWN-FINDING: property=%s %s" % (prop, fid))
        if res["unmatched"]:
            for f in res["unmatched"]:
                print("  failed clause %s: %s" % (f["clause"], f["detail"]))
            print("VIOLATION property=%s replay=%s" % (prop, argv[2]))
            return 1
        print("replay ok: property=%s held on %s" % (prop, argv[2]))
        return 0

    tier = argv[1]
    if tier not in ("quick", "thorough"):
        print("unknown tier %r" % tier)
        return 2
    os.environ["VERIF_TIER"] = tier
    base_seed = int(os.environ.get("VERIF_SEED", "1") or "1")
    t0 = time.time()
    shards = mod.plan(tier)
    jobs = [(prop, sh, _seed_for(base_seed, i), tier, i) for i, sh in enumerate(shards)]
    nproc = int(os.environ.get("VERIF_PROCS", "16"))

    # 1. regression tier: stored cases, replayed without Hypothesis
    regress = []
    for path in sorted(glob.glob(os.path.join(HERE, "regress", prop, "*.json"))):
        with open(path) as fh:
            rec = json.load(fh)
        regress.append((path, rec))

    with mp.Pool(min(nproc, max(1, len(jobs) + len(regress)))) as pool:
        rres = pool.map_async(_replay_worker,
                              [(prop, r["kind"], r["case"]) for _, r in regress])
        sres = pool.map_async(_worker, jobs)
        rres = rres.get()
        sres = sres.get()

    for old in glob.glob(os.path.join(HERE, "replays", "%s-%s-*.json" % (prop, base_seed))):
        os.remove(old)
    status = 0
    errors = []
    violations = []
    known_seen = collections.Counter()
    known_cases = {}

    for (path, rec), res in zip(regress, rres):
        rel = os.path.relpath(path, HERE)
        if res["error"]:
            errors.append("regress %s: %s" % (rel, res["error"]))
            continue
        for fid, cnt in res["known"].items():
            known_seen[fid] += cnt
        if res["unmatched"]:
            violations.append((rel, res["unmatched"]))

    total = {"evaluations": len(regress), "nt": set(), "samples": [],
             "classes": collections.Counter(), "excluded": collections.Counter(),
             "extra": {}, "notes": []}
    shard_walls = {}
    for res in sres:
        if res["error"]:
            errors.append("shard %s: %s" % (res["shard"], res["error"]))
        total["evaluations"] += res["evaluations"]
        total["nt"] |= res["nt"]
        for s in res["samples"]:
            if len(total["samples"]) < 6:
                total["samples"].append(s)
        total["classes"].update(res["classes"])
        total["excluded"].update(res["excluded"])
        for k, v in res["extra"].items():
            if isinstance(v, (int, float)) and not isinstance(v, bool):
                total["extra"][k] = total["extra"].get(k, 0) + v
            elif isinstance(v, list):
                total["extra"].setdefault(k, [])
                total["extra"][k] = (total["extra"][k] + v)[:50]
            else:
                total["extra"][k] = v
        total["notes"].extend(res["notes"])
        for fid, cnt in res["known_hits"].items():
            known_seen[fid] += cnt
        for fid, c in res["known_cases"].items():
            known_cases.setdefault(fid, c)
        shard_walls[res["shard"]] = round(res.get("wall_s", 0.0), 1)
        for v in res["violations"][:10]:
            n = len(violations)
            rel = _write_replay(prop, base_seed, n, v)
            violations.append((rel, v["failures"]))

    # spread the samples over kinds
    if len(total["samples"]) < 2:
        for res in sres:
            for s in res["samples"]:
                if s not in total["samples"] and len(total["samples"]) < 6:
                    total["samples"].append(s)

    # 2. protocol lines
    for e in findings.open_for(prop):
        if known_seen.get(e["id"]):
            print("KNOWN-FINDING: property=%s %s: %s (seen %d times this run)"
                  % (prop, e["id"], e["what"], known_seen[e["id"]]))
    per_clause = collections.Counter()
    printed = 0
    for rel, fails in violations:
        status = 1
        key = fails[0]["clause"] if fails else "?"
        per_clause[key] += 1
        if per_clause[key] > 2 or printed >= 8:
            continue
        printed += 1
        for f in fails[:3]:
            print("  failed clause %s: %s" % (f["clause"], f["detail"]))
        print("VIOLATION property=%s replay=%s" % (prop, rel))
    if len(violations) > printed:
        print("  (%d further violations not listed; by first clause: %s)"
              % (len(violations) - printed, dict(per_clause)))
    for e in errors[:3]:
        lines = e.strip().splitlines()
        print("harness error: " + lines[0][:200])
        keep = [ln for ln in lines if ln[:1] not in (" ", "\t") and ("Error" in ln or "Exception" in ln)]
        frames = [ln for ln in lines if ln.lstrip().startswith("File ") and "/verif/" in ln]
        for ln in frames[-3:] + keep[-2:]:
            print("    " + ln.strip()[:300])
    if errors and status == 0:
        status = 2

    # 3. evidence
    wall = time.time() - t0
    coverage = {
        "evaluations": total["evaluations"],
        "distinct_nontrivial": len(total["nt"]),
        "rule": getattr(mod, "RULE", ""),
        "samples": total["samples"],
        "classes": dict(sorted(total["classes"].items())),
        "known_finding_hits": dict(known_seen),
        "excluded_by_construction": dict(total["excluded"]),
        "regress_cases_replayed": len(regress),
        "shards": len(shards),
        "shard_wall_s": shard_walls,
    }
    if getattr(mod, "EXHAUSTIVE", None):
        coverage["exhaustive"] = True
        coverage["exhaustive_scope"] = mod.EXHAUSTIVE
    coverage.update(total["extra"])
    if total["notes"]:
        coverage["notes"] = total["notes"][:20]
    level = getattr(mod, "LEVEL", "exploration")
    if level == "translation_validation":
        coverage["programs"] = total["evaluations"]
        coverage["disagreements_checked"] = len(violations) + sum(known_seen.values())
    evidence = {
        "property_id": prop,
        "tier": tier,
        "seed": base_seed,
        "level": level,
        "coverage": coverage,
        "assumptions": list(getattr(mod, "ASSUMPTIONS", [])),
        "wall_s": round(wall, 2),
        "violations": len(violations),
    }
    os.makedirs(os.path.join(HERE, "evidence"), exist_ok=True)
    with open(os.path.join(HERE, "evidence", "%s.json" % prop), "w") as fh:
        json.dump(evidence, fh, indent=1, sort_keys=True, default=str)
        fh.write("\n")
    print("%s %s seed=%d: %d evaluations, %d distinct non-trivial, %d violations, "
          "%d known-finding hits, %.1fs" % (prop, tier, base_seed, total["evaluations"],
                                            len(total["nt"]), len(violations),
                                            sum(known_seen.values()), wall))
    return status


if __name__ == "__main__":
    try:
        rc = main(sys.argv[1:])
    except SystemExit:
        raise
    except BaseException:
        traceback.print_exc()
        print("harness error: runner crashed")
        rc = 2
    sys.exit(rc)
