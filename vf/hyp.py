"""Hypothesis driver: collect - classify - shrink, with a bounded shrink budget."""
import hypothesis
from hypothesis import HealthCheck, Phase, given, settings

from . import core, env


class Violation(Exception):
    pass


def in_env(strategy, shard):
    """Cases of a shard that runs in another process environment carry its name (replay needs it)."""
    name = shard.get("env")
    if not name:
        return strategy
    return strategy.map(lambda c: dict(c, env=name))


def drive(ctx, kind, strategy, body, n, seed, shrink_budget=250, reset=True):
    """Run ``body`` on ``n`` cases drawn from ``strategy``.

    ``body(case) -> (nontrivial: bool, classes: list[str], failures: list[failure])``.
    Failures absorbed by an open known finding are tallied and do not stop the search;
    an unmatched failure makes Hypothesis shrink the case (only unmatched failures count
    while shrinking, so shrinking can never slide into a known finding).  After
    ``shrink_budget`` executions of the shrinker the body is no longer evaluated and
    the smallest failing case found so far is reported.
    """
    state = {"best": None, "key": None, "after": 0}

    @settings(max_examples=n, database=None, deadline=None, derandomize=False,
              report_multiple_bugs=False, print_blob=False,
              phases=[Phase.generate, Phase.shrink],
              suppress_health_check=[HealthCheck.too_slow, HealthCheck.data_too_large,
                                     HealthCheck.large_base_example])
    @hypothesis.seed(seed)
    @given(strategy)
    def test(case):
        key = core.canon(case)
        shrinking = state["best"] is not None
        if shrinking:
            state["after"] += 1
            if state["after"] > shrink_budget:
                if key == state["key"]:
                    raise Violation()
                return
        if state.get("hung"):
            # never execute anything again after a case that did not return
            if key == state["key"]:
                raise Violation()
            return
        if reset:
            env.reset_lib_state()
        try:
            with env.watchdog():
                nontrivial, classes, failures = body(case)
        except env.CaseHang:
            state["hung"] = True
            nontrivial, classes = True, ["hang"]
            failures = [core.failure("hang.no_return", "the case did not return within %d s (a call into the "
                                     "library does not terminate)" % env.HANG_SECONDS, kind=kind)]
        unmatched = ctx.case(case, nontrivial, classes, failures, count=not shrinking,
                             kind=kind)
        if unmatched:
            state["best"] = (case, unmatched)
            state["key"] = key
            raise Violation()

    try:
        test()
    except Violation:
        case, fails = state["best"]
        ctx.violation(kind, case, fails)
    except Exception as exc:
        # Flaky reports and internal shrinker errors of Hypothesis must not hide a failure
        # that was already found: report the smallest failing case seen so far.
        if state["best"] is not None:
            case, fails = state["best"]
            ctx.violation(kind, case, fails)
            ctx.notes.append("hypothesis raised %s while shrinking %s; reporting the smallest failing "
                             "case found so far" % (type(exc).__name__, kind))
        else:
            raise
    return state["best"] is None
