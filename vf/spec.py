"""Document *specs* (pure JSON-able data) and the Hypothesis strategies producing them.

A spec is plain data so that it can be shrunk, hashed, sampled into evidence and stored as
a replay file.  ``vf.build`` turns it into real odml objects through the public API.

Typed values are stored natively for int/float/bool/str, as ISO text for
date/time/datetime (re-typed by the builder according to the dtype) and as lists of
strings for n-tuples.
"""
import datetime as dt
import string

from hypothesis import strategies as st

CANON_DTYPES = ["string", "text", "int", "float", "url", "datetime", "date", "time",
                "boolean", "person"]
STRINGLIKE = ("string", "text", "url", "person")

# ------------------------------------------------------------------------------------
# text classes

PLAIN = st.text(alphabet=string.ascii_letters + string.digits + " _-", min_size=1, max_size=8)
_WORD = st.text(alphabet=string.ascii_lowercase, min_size=1, max_size=5)

LOOKALIKES = ["yes", "no", "on", "off", "null", "~", "true", "false", "True", "1", "0",
              "1e3", "0x1f", "1.5", "2020-01-01", "12:00:00", "2020-01-01 12:00:00", "-",
              "?", ":", "#", "- a", "a: b", "# c", "!!str", "&a", "*a", "{a: 1}", "[1, 2]",
              "1_000", "0o17", ".inf", ".nan", "=", "<<", "|", ">", "%", "@", "`"]


def _join(*parts):
    return st.tuples(*parts).map("".join)


TEXT_CLASSES = {
    "plain": PLAIN,
    "comma": _join(_WORD, st.sampled_from([",", ", ", ",,"]), _WORD),
    "dquote": _join(st.sampled_from(["", "a"]), st.sampled_from(['"', '""', '"x"']), _WORD),
    "squote": _join(_WORD, st.just("'"), _WORD),
    "bracket": st.one_of(_WORD.map(lambda w: "[" + w + "]"), _WORD.map(lambda w: "[" + w),
                         _WORD.map(lambda w: w + "]"),
                         st.tuples(_WORD, _WORD).map(lambda t: "[%s,%s]" % t),
                         st.tuples(_WORD, _WORD).map(lambda t: "[%s, %s]" % t),
                         # bracketed only after trimming
                         st.tuples(_WORD, _WORD).map(lambda t: "  [%s, %s]\n" % t),
                         _WORD.map(lambda w: " [" + w + "] ")),
    "newline": _join(_WORD, st.sampled_from(["\n", "\r\n", "\t", "\n\n"]), _WORD),
    "edgeblank": st.one_of(_WORD.map(lambda w: " " + w), _WORD.map(lambda w: w + " "),
                           _WORD.map(lambda w: "\t" + w + "\n"), _WORD.map(lambda w: "  " + w + "  ")),
    "xmlmeta": _join(_WORD, st.sampled_from(["<", ">", "&", "]]>", "<a>", "&amp;", "<!--", "&#10;"]),
                     st.sampled_from(["", "b"])),
    "nonascii": st.text(alphabet=st.sampled_from(list(u"äöüßéñ中文日本語Ωμ°±€  😀𝔘")),
                        min_size=1, max_size=4),
    "lookalike": st.sampled_from(LOOKALIKES),
    # line boundaries that are not CR/LF: what str.splitlines, YAML and XML treat specially
    "unibreak": _join(_WORD, st.sampled_from([u"\u2028", u"\u2029", u"\x85", u"\u2028\u2029", u"\xa0", u"\ufeff"]), _WORD),
    "semiparen": _join(_WORD, st.sampled_from([";", "(", ")", "(a;b)", "; "]), _WORD),
    "free": st.text(alphabet=st.characters(blacklist_categories=("Cs", "Cc"),
                                           blacklist_characters=u"￾￿"),
                    min_size=1, max_size=10),
}

TEXT_CLASS_NAMES = sorted(TEXT_CLASSES)
# classes a check has to ask for by name (not part of the default alphabet)
TEXT_CLASSES["surrogate"] = _join(_WORD, st.sampled_from([u"\ud800", u"\udfff", u"\udcff"]), st.sampled_from(["", "x"]))


def classify_text(s):
    """The classes a given string belongs to (for evidence histograms and NT rules)."""
    out = set()
    if not isinstance(s, str):
        return out
    if s == "":
        out.add("empty")
        return out
    if "," in s:
        out.add("comma")
    if '"' in s:
        out.add("dquote")
    if "'" in s:
        out.add("squote")
    if s.startswith("[") or s.endswith("]"):
        out.add("bracket")
    if "\n" in s or "\r" in s or "\t" in s:
        out.add("newline")
    if s != s.strip():
        out.add("edgeblank")
    if any(c in s for c in "<>&"):
        out.add("xmlmeta")
    if any(ord(c) > 127 for c in s):
        out.add("nonascii")
    if any(c in s for c in u"\u2028\u2029\x85"):
        out.add("unibreak")
    if s in LOOKALIKES:
        out.add("lookalike")
    if any(c in s for c in ";()"):
        out.add("semiparen")
    if not out:
        out.add("plain")
    return out


def text(classes=None, weights_plain=3):
    """A text strategy: a class is drawn first, then a member."""
    names = classes or [c for c in TEXT_CLASS_NAMES]
    strategies = [TEXT_CLASSES[c] for c in names]
    return st.one_of([TEXT_CLASSES["plain"]] * weights_plain + strategies)


# Names: never blank-only and without surrounding blanks (sibling uniqueness is by
# construction, see below).  '/', ':' and '#' mean something in paths and links; only the checks that
# build paths ask for path-safe names, everywhere else such characters are part of a name like any other.
NAME_ALPHABET = string.ascii_letters + string.digits + "_-. äΩ,\"'[]<&" + "/:#%\\"


def names(pathsafe=False):
    small = st.sampled_from(["a", "b", "c", "ab", "abc", "a-b", "sec", "prop", "A", "x1"])
    alpha = NAME_ALPHABET if not pathsafe else string.ascii_letters + string.digits + "_- äΩ,\"'[]<&"
    free = st.text(alphabet=alpha, min_size=1, max_size=8).map(lambda s: s.strip()) \
        .filter(lambda s: s not in ("", ".", ".."))
    return st.one_of(small, small, free)


SEC_TYPES = ["n.s.", "t", "subject", "a/b", "recording/cell", "cell", "stimulus",
             "stimulus/white_noise", "dataset", "Recording", "x y", "setup/daq"]


def sec_types():
    return st.one_of(st.sampled_from(SEC_TYPES), PLAIN.map(lambda s: s.strip() or "t"))


# ------------------------------------------------------------------------------------
# values per dtype

_INTS = st.one_of(st.integers(-5, 5), st.integers(-10 ** 6, 10 ** 6),
                  st.integers(-2 ** 70, 2 ** 70), st.sampled_from([2 ** 63, -2 ** 63 - 1, 0]))
_FLOATS = st.one_of(st.floats(allow_nan=False, allow_infinity=False),
                    st.sampled_from([0.0, -0.0, 1e300, 1e-300, 5e-324, 0.1, 1.0 / 3, 2.5,
                                     1.7976931348623157e308, 123456789.12345678,
                                     float("inf"), float("-inf"), float("nan")]),
                    st.integers(-1000, 1000).map(float))
_DATES = st.dates(min_value=dt.date(1, 1, 1), max_value=dt.date(9999, 12, 31))
_TIMES = st.times().map(lambda t: t.replace(microsecond=0, tzinfo=None))
_DATETIMES = st.datetimes(min_value=dt.datetime(1, 1, 1), max_value=dt.datetime(9999, 12, 31, 23, 59, 59)) \
    .map(lambda d: d.replace(microsecond=0))
# years before 1000 have to be written with four digits
_DATETIMES = st.one_of(_DATETIMES, _DATETIMES, _DATETIMES,
                       st.sampled_from([dt.datetime(999, 12, 31, 23, 59, 59), dt.datetime(1, 1, 1, 0, 0, 0),
                                        dt.datetime(476, 9, 4, 12, 0, 0)]))
_TUPLE_MEMBER = st.one_of(st.text(alphabet=string.ascii_letters + string.digits + "._- ", min_size=1, max_size=5)
                          .map(lambda s: s.strip() or "t"),
                          st.sampled_from(["a,b", "Smith, John", 'say "x"', "it's", "[x]", "a, b,c", '"', ",", "ä,ö",
                                           "l1\nl2", "x\r\ny", "a\tb"]),
                          st.integers(-99, 99).map(str), st.floats(-9, 9, allow_nan=False).map(str))


def value_strategy(dtype, text_classes=None, allow_empty_string=True):
    if dtype in ("string", "url", "person"):
        classes = text_classes
        s = text(classes)
        if dtype != "text":
            pass
        if allow_empty_string:
            s = st.one_of(s, s, s, s, s, s, s, s, s, st.just(""))
        return s
    if dtype == "text":
        s = text(text_classes)
        if allow_empty_string:
            s = st.one_of(s, s, s, s, s, s, s, s, s, st.just(""))
        return s
    if dtype == "int":
        return _INTS
    if dtype == "float":
        return _FLOATS
    if dtype == "boolean":
        return st.booleans()
    if dtype == "date":
        return _DATES.map(lambda d: d.isoformat())
    if dtype == "time":
        return _TIMES.map(lambda t: t.isoformat())
    if dtype == "datetime":
        return _DATETIMES.map(lambda d: d.isoformat(sep=" "))
    if dtype.endswith("-tuple"):
        k = int(dtype.split("-")[0])
        return st.lists(_TUPLE_MEMBER, min_size=k, max_size=k)
    raise ValueError(dtype)


def dtypes(tuples=True):
    base = st.sampled_from(CANON_DTYPES)
    if tuples:
        return st.one_of(base, base, base, st.integers(1, 4).map(lambda k: "%d-tuple" % k))
    return base


def cardinalities():
    """None, max only, min only, min<max, min==max, min 0 with max."""
    return st.one_of(
        st.none(), st.none(),
        st.integers(1, 4).map(lambda n: [None, n]),
        st.integers(1, 4).map(lambda n: [n, None]),
        st.tuples(st.integers(0, 3), st.integers(1, 3)).map(lambda t: [t[0], t[0] + t[1]]),
        st.integers(1, 4).map(lambda n: [n, n]),
        st.integers(1, 4).map(lambda n: [0, n]),
    )


_UUIDS = st.uuids().map(str)


def ids():
    return st.one_of(st.none(), st.none(), st.none(), _UUIDS)


def opt(strategy, p_none=1):
    return st.one_of(*([st.none()] * p_none + [strategy]))


def uncertainties():
    return st.one_of(st.none(), st.none(), st.integers(0, 9), st.floats(0, 10, allow_nan=False),
                     st.sampled_from([0, 0.0, 0.5, 1, 1e-9, 3]))


@st.composite
def prop_spec(draw, name, text_classes=None, tuples=True, attr_text=None, falsy=True,
              max_values=5, dtype_members=False):
    attr_text = attr_text or text(text_classes)
    dtype = draw(dtypes(tuples))
    n = draw(st.sampled_from([0, 1, 1, 2, 3, max_values]))
    values = draw(st.lists(value_strategy(dtype, text_classes), min_size=n, max_size=n))
    if (text_classes is None or "bracket" in text_classes) and draw(st.integers(0, 11)) == 0:
        # a single text value that looks like a list (also: only after trimming) is the one shape the
        # XML value syntax has to escape - too rare to be left to chance
        dtype = draw(st.sampled_from(["string", "text"]))
        values = [draw(TEXT_CLASSES["bracket"])]
    if dtype == "string" and any(isinstance(v, str) and "\n" in v for v in values[:1]):
        # a first value with a newline makes infer_dtype say 'text' - keep dtype explicit anyway
        pass
    spec = {
        "k": "prop", "name": name, "id": draw(ids()), "dtype": dtype, "values": values,
        "unit": draw(opt(attr_text, 2)),
        "uncertainty": draw(uncertainties()) if falsy else draw(opt(st.floats(0.1, 10), 2)),
        "definition": draw(opt(attr_text, 2)),
        "reference": draw(opt(attr_text, 3)),
        "dependency": draw(opt(attr_text, 4)),
        "dependency_value": draw(opt(attr_text, 4)),
        "value_origin": draw(opt(attr_text, 3)),
        "val_card": draw(cardinalities()),
    }
    if dtype_members and dtype in CANON_DTYPES and draw(st.booleans()):
        spec["dtype_member"] = True
    if dtype_members and dtype in ("time", "datetime") and values and draw(st.booleans()):
        # the values are handed over as timezone aware Python objects (stored without the offset)
        spec["tz_aware"] = draw(st.sampled_from([0, 60, -330]))
    return spec


def _unique_names(draw, n, pathsafe):
    out = []
    seen = set()
    tries = 0
    while len(out) < n and tries < 50:
        tries += 1
        nm = draw(names(pathsafe))
        if nm in seen:
            nm = nm + str(len(out))
            if nm in seen:
                continue
        seen.add(nm)
        out.append(nm)
    return out


@st.composite
def sec_spec(draw, name, depth, max_secs=3, max_props=4, text_classes=None, pathsafe=False,
             tuples=True, links=False, falsy=True, dtype_members=False):
    attr_text = text(text_classes)
    nsec = draw(st.integers(0, max_secs)) if depth > 0 else 0
    nprop = draw(st.integers(0, max_props))
    snames = _unique_names(draw, nsec, pathsafe)
    pnames = _unique_names(draw, nprop, pathsafe)
    spec = {
        "k": "sec", "name": name, "type": draw(sec_types()), "id": draw(ids()),
        "definition": draw(opt(attr_text, 2)),
        "reference": draw(opt(attr_text, 3)),
        "repository": draw(opt(st.sampled_from(["file:///nonexistent/t.xml", "http://x.invalid/a b"]), 8)),
        "link": None, "include": None,
        "sec_card": draw(cardinalities()),
        "prop_card": draw(cardinalities()),
        "props": [draw(prop_spec(nm, text_classes, tuples, attr_text, falsy,
                                 dtype_members=dtype_members)) for nm in pnames],
        "sections": [draw(sec_spec(nm, depth - 1, max_secs, max_props, text_classes, pathsafe,
                                   tuples, links, falsy, dtype_members)) for nm in snames],
    }
    return spec


@st.composite
def doc_spec(draw, max_depth=3, max_secs=3, max_props=4, text_classes=None, pathsafe=False,
             tuples=True, falsy=True, dtype_members=False):
    attr_text = text(text_classes)
    depth = draw(st.integers(0, max_depth))
    nsec = draw(st.integers(0, max_secs)) if depth > 0 else 0
    snames = _unique_names(draw, nsec, pathsafe)
    return {
        "k": "doc", "id": draw(ids()),
        "author": draw(opt(attr_text, 2)),
        "version": draw(opt(attr_text, 2)),
        "date": draw(opt(_DATES.map(lambda d: d.isoformat()), 2)),
        "repository": draw(opt(st.sampled_from(["file:///nonexistent/t.xml", "http://x.invalid/t"]), 6)),
        "sections": [draw(sec_spec(nm, depth - 1, max_secs, max_props, text_classes, pathsafe,
                                   tuples, False, falsy, dtype_members)) for nm in snames],
    }


# ------------------------------------------------------------------------------------
# helpers over specs

def iter_secs(spec):
    for s in spec.get("sections", []):
        yield s
        for x in iter_secs(s):
            yield x


def iter_secs_with_path(spec, prefix=""):
    for s in spec.get("sections", []):
        path = prefix + "/" + s["name"]
        yield s, path
        for x in iter_secs_with_path(s, path):
            yield x


def add_links(spec, picks):
    """Give some Sections a stored (not resolved) link to another Section of the document or an
    include of a file that is never fetched.  ``picks``: list of [i, j, kind]."""
    secs = list(iter_secs_with_path(spec))
    if not secs:
        return spec
    for i, j, kind in picks:
        s, spath = secs[i % len(secs)]
        t, tpath = secs[j % len(secs)]
        if s.get("link") or s.get("include"):
            continue
        if kind == "include":
            s["include"] = "file:///nonexistent/included-%d.xml#%s" % (j % 3, tpath)
        elif s is not t and not tpath.startswith(spath + "/") and not spath.startswith(tpath + "/") \
                and all(c not in tpath for c in "#") and "/" not in t["name"]:
            s["link"] = tpath
    return spec


def inject_nan(spec, picks):
    """Give some float Properties a NaN value and some Properties a NaN uncertainty (NaN is a float
    like any other to the library, but it is not equal to itself).  ``picks``: list of [i, what]."""
    props = list(iter_props(spec))
    if not props:
        return spec
    for i, what in picks:
        p = props[i % len(props)]
        if what == "uncertainty":
            p["uncertainty"] = float("nan")
        elif p["dtype"] == "float":
            p["values"] = list(p["values"]) + [float("nan")]
    return spec


def iter_props(spec):
    for s in iter_secs(spec):
        for p in s.get("props", []):
            yield p


def text_classes_in(spec):
    """Set of text classes occurring in values and attributes of a document spec."""
    found = set()
    for p in iter_props(spec):
        if p["dtype"] in STRINGLIKE:
            for v in p["values"]:
                found |= classify_text(v)
        for a in ("unit", "definition", "reference", "dependency", "dependency_value",
                  "value_origin", "name"):
            found |= classify_text(p.get(a))
    for s in iter_secs(spec):
        for a in ("definition", "reference", "name", "type"):
            found |= classify_text(s.get(a))
    for a in ("author", "version"):
        found |= classify_text(spec.get(a))
    return found


def count(spec):
    secs = list(iter_secs(spec))
    props = list(iter_props(spec))
    return len(secs), len(props)


def fill_ids(spec, seed=0):
    """Deterministically give every object of a spec an id (in place); returns the spec."""
    import uuid
    n = [0]

    def nxt():
        n[0] += 1
        return str(uuid.UUID(int=(seed * 1000003 + n[0]) % (2 ** 128), version=4))

    if spec.get("id") is None:
        spec["id"] = nxt()
    for s in iter_secs(spec):
        if s.get("id") is None:
            s["id"] = nxt()
        for p in s.get("props", []):
            if p.get("id") is None:
                p["id"] = nxt()
    return spec


def is_text_of_number(built, loaded):
    """built is a normalised numeric tv (['num', hex]) and loaded the tv of a str holding that number."""
    try:
        return built[0] == "num" and loaded[0] == "str" and float(loaded[1]) == float.fromhex(built[1])
    except (ValueError, TypeError, IndexError):
        return False
