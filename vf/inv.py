"""Tree / name / id invariants over a universe of objects (C03, C04; reused by C16)."""
import uuid

from .core import failure
from .snap import kind


def _raw(lst):
    return list(list.__iter__(lst))


def tree_failures(universe, clause_prefix="tree"):
    """I1-I5 over every object of ``universe``. Returns a list of failures."""
    fails = []
    objs = list(universe)
    # complete the universe with everything reachable through child lists / parents
    seen = {id(o): o for o in objs}
    stack = list(objs)
    while stack:
        o = stack.pop()
        k = kind(o)
        nxt = []
        if k in ("doc", "sec"):
            nxt.extend(_raw(o.sections))
        if k == "sec":
            nxt.extend(_raw(o.properties))
        if k in ("sec", "prop") and o._parent is not None:
            nxt.append(o._parent)
        for n in nxt:
            if id(n) not in seen and kind(n) != "other":
                seen[id(n)] = n
                stack.append(n)
    objs = list(seen.values())

    containers = [o for o in objs if kind(o) in ("doc", "sec")]
    # where is each object listed?
    listed = {}
    for c in containers:
        for child in _raw(c.sections):
            listed.setdefault(id(child), []).append((c, "sections"))
        if kind(c) == "sec":
            for child in _raw(c.properties):
                listed.setdefault(id(child), []).append((c, "properties"))

    structural_ok = True
    for o in objs:
        k = kind(o)
        if k not in ("sec", "prop"):
            continue
        par = o._parent
        where = listed.get(id(o), [])
        want = "sections" if k == "sec" else "properties"
        if par is not None:
            n_in_parent = sum(1 for (c, l) in where if c is par and l == want)
            if n_in_parent != 1:
                structural_ok = False
                fails.append(failure(clause_prefix + ".I1", "%s %r reports parent %r but occurs %d times "
                                     "in its %s list" % (k, o.name, getattr(par, "name", "<doc>"),
                                                         n_in_parent, want),
                                     kind=k, count=n_in_parent))
        others = [(c, l) for (c, l) in where if c is not par]
        if others:
            structural_ok = False
            fails.append(failure(clause_prefix + ".I2", "%s %r is listed in %d container(s) that are not "
                                 "its parent (parent is %s)" % (k, o.name, len(others),
                                                                "None" if par is None else "set"),
                                 kind=k, parent_none=par is None))
        if par is not None and sum(1 for (c, l) in where if c is par) > 1:
            structural_ok = False
            fails.append(failure(clause_prefix + ".I2", "%s %r occurs twice in one list" % (k, o.name),
                                 kind=k, twice=True))
    for c in containers:
        for child in _raw(c.sections):
            if kind(child) != "sec":
                structural_ok = False
                fails.append(failure(clause_prefix + ".I3", "non-Section in sections list", kind=kind(child)))
            elif child._parent is not c:
                structural_ok = False
                fails.append(failure(clause_prefix + ".I3", "Section %r is listed in %r but reports another "
                                     "parent" % (child.name, getattr(c, "name", "<doc>")), kind="sec",
                                     parent_none=child._parent is None))
        if kind(c) == "sec":
            for child in _raw(c.properties):
                if kind(child) != "prop":
                    structural_ok = False
                    fails.append(failure(clause_prefix + ".I3", "non-Property in properties list",
                                         kind=kind(child)))
                elif child._parent is not c:
                    structural_ok = False
                    fails.append(failure(clause_prefix + ".I3", "Property %r is listed in %r but reports "
                                         "another parent" % (child.name, c.name), kind="prop",
                                         parent_none=child._parent is None))
    # I4: no cycles through parent
    bound = len(objs) + 2
    for o in objs:
        if kind(o) != "sec":
            continue
        node, steps, visited = o, 0, set()
        while node is not None and kind(node) == "sec":
            if id(node) in visited or steps > bound:
                structural_ok = False
                fails.append(failure(clause_prefix + ".I4", "Section %r is its own ancestor" % o.name,
                                     kind="sec"))
                break
            visited.add(id(node))
            node = node._parent
            steps += 1
    if not structural_ok:
        return fails
    # I5 and terminating traversals - only called on a structurally sound universe
    for o in objs:
        k = kind(o)
        if k == "other":
            continue
        root = o
        while kind(root) in ("sec", "prop") and root._parent is not None:
            root = root._parent
        expect = root if kind(root) == "doc" else None
        try:
            got = o.document
        except Exception as exc:  # noqa
            fails.append(failure(clause_prefix + ".I5", "document raised %r" % exc, kind=k))
            continue
        if got is not expect:
            fails.append(failure(clause_prefix + ".I5", "%s %r: document is %r, root of the parent "
                                 "chain is %r" % (k, getattr(o, "name", "<doc>"), got, expect), kind=k))
        try:
            o.get_path()
            if k in ("doc", "sec"):
                n = 0
                for _ in o.itersections():
                    n += 1
                    if n > len(objs) + 1:
                        fails.append(failure(clause_prefix + ".I5", "itersections yields more objects "
                                             "than exist", kind=k))
                        break
        except Exception as exc:  # noqa
            fails.append(failure(clause_prefix + ".I5", "path/traversal raised %r" % exc, kind=k))
    return fails


def canonical_uuid(text):
    try:
        return isinstance(text, str) and str(uuid.UUID(text)) == text
    except (ValueError, AttributeError, TypeError):
        return False


def name_failures(universe, clause_prefix="names"):
    """N1 sibling names unique, N2 name non-empty str, N3 id canonical UUID."""
    fails = []
    seen = {}
    stack = list(universe)
    while stack:
        o = stack.pop()
        if id(o) in seen or kind(o) == "other":
            continue
        seen[id(o)] = o
        if kind(o) in ("doc", "sec"):
            stack.extend(_raw(o.sections))
        if kind(o) == "sec":
            stack.extend(_raw(o.properties))
    for o in seen.values():
        k = kind(o)
        if k in ("doc", "sec"):
            nm = [c.name for c in _raw(o.sections) if kind(c) == "sec"]
            if len(set(map(repr, nm))) != len(nm):
                fails.append(failure(clause_prefix + ".N1", "duplicate Section names %r under %r"
                                     % (sorted(map(str, nm)), getattr(o, "name", "<doc>")), kind="sec"))
        if k == "sec":
            nm = [c.name for c in _raw(o.properties) if kind(c) == "prop"]
            if len(set(map(repr, nm))) != len(nm):
                fails.append(failure(clause_prefix + ".N1", "duplicate Property names %r in %r"
                                     % (sorted(map(str, nm)), o.name), kind="prop"))
        if k in ("sec", "prop"):
            if not isinstance(o.name, str) or o.name == "":
                fails.append(failure(clause_prefix + ".N2", "%s has name %r" % (k, o.name), kind=k))
        if not canonical_uuid(o.id):
            fails.append(failure(clause_prefix + ".N3", "%s has id %r" % (k, o.id), kind=k))
    return fails
