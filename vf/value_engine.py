"""Interpreter for value-editing histories on Properties (C05, reused by C06)."""
import datetime as dt

from hypothesis import strategies as st

import odml
from odml import dtypes as libdtypes
from odml.dtypes import DType

from . import snap
from .core import failure
from .spec import CANON_DTYPES

TUPLES = ["1-tuple", "2-tuple", "3-tuple"]
ALL_DTYPES = CANON_DTYPES + TUPLES
INVALID_DTYPES = ["integer", "double", "0-tuple", "tuple", "x", "-1-tuple", "2-tuples", ""]

PYTYPE = {"string": str, "text": str, "url": str, "person": str, "int": int, "float": float,
          "boolean": bool, "date": dt.date, "time": dt.time, "datetime": dt.datetime,
          # the two documented short forms are stored as given (the repository's tests pin this)
          "str": str, "bool": bool}


# ------------------------------------------------------------------------------------
# inputs (JSON-able, decoded right before the call)

def enc(t, v=None):
    return {"t": t, "v": v}


_TEXTS = ["3", "3.0", " 3 ", "-7", "3.x", "abc", "true", "T", "False", "f", "0", "1", "yes",
          "2020-01-01", "2020-13-01", "2020-1-1", "12:30:00", "25:00:00", "12:30",
          "2020-01-01 12:30:00", "2020-01-01T12:30:00", "0999-12-31 23:59:59", "0001-01-01", "0001-01-01 00:00:00", "1e3", "inf", "nan", "1e400", "0x10",
          "[1, 2]", "[1,2]", "[a]", "[", "[]", "(1;2)", "(1;2", "(1;2;3)", "[(1;2),(3;4)]",
          "(a)", "()", "(;)", " (1;2) ", "a\nb", " a ", "", "http://x.org/a?b=c,d"]

SCALAR = st.one_of(
    st.integers(-5, 5).map(lambda v: enc("int", v)),
    st.sampled_from([2 ** 70, -2 ** 63, 10 ** 30]).map(lambda v: enc("int", v)),
    st.sampled_from([0.0, -0.0, 1.5, -2.25, 1e300, 3.0, float("inf"), float("nan")]).map(lambda v: enc("float", v)),
    st.booleans().map(lambda v: enc("bool", v)),
    st.sampled_from(_TEXTS).map(lambda v: enc("str", v)),
    st.sampled_from(_TEXTS).map(lambda v: enc("str", v)),
    st.sampled_from(["2020-01-01", "0001-01-01", "9999-12-31", "1999-02-28"]).map(lambda v: enc("date", v)),
    st.sampled_from(["12:30:00", "00:00:00", "23:59:59"]).map(lambda v: enc("time", v)),
    st.sampled_from(["12:30:00.250000", "23:59:59.999999", "12:30:00+02:00"]).map(lambda v: enc("time", v)),
    st.sampled_from(["2020-01-01T12:30:00", "1000-01-01T00:00:00", "0999-12-31T23:59:59",
                     "2020-01-01T12:30:00.123456", "2020-01-01T12:30:00+02:00",
                     "2020-06-01T00:00:00-05:00"]).map(lambda v: enc("datetime", v)),
    st.just(enc("none")),
)

INPUT = st.one_of(
    SCALAR, SCALAR, SCALAR,
    st.lists(SCALAR, min_size=0, max_size=4).map(lambda v: enc("list", v)),
    st.lists(SCALAR, min_size=0, max_size=3).map(lambda v: enc("tuple", v)),
    st.lists(st.lists(st.sampled_from(["1", "2", "a", " b ", "3;4", ""]).map(lambda v: enc("str", v)),
                      min_size=1, max_size=3).map(lambda v: enc("list", v)),
             min_size=1, max_size=3).map(lambda v: enc("list", v)),
    # a convertible first member (the dtype is inferred from it) followed by one whose conversion overflows
    st.sampled_from([[enc("int", 1), enc("float", float("inf"))], [enc("int", 3), enc("str", "1e999")],
                     [enc("int", 1), enc("str", "inf")], [enc("float", 1.5), enc("int", 2 ** 1024)],
                     [enc("int", 2), enc("float", float("nan"))], [enc("bool", True), enc("str", "maybe")],
                     [enc("date", "2020-01-01"), enc("str", "2020-13-45")]]).map(lambda v: enc("list", v)),
    st.just(enc("dict", {})), st.just(enc("dict", {"a": 1})),
    st.integers(0, 1).map(lambda i: enc("prop", i)),
    st.just(enc("set", [1, 2])), st.just(enc("bytes", "ab")), st.just(enc("gen", [1, 2])),
)


def typed_input_for(dtype):
    """Inputs that are natural for a dtype (so that successful conversions are frequent)."""
    if dtype in ("string", "text", "url", "person"):
        return st.sampled_from(["a", "b c", "x,y", "[u]", " pad ", "l1\nl2", "", "1", "true", "ä"]).map(lambda v: enc("str", v))
    if dtype == "int":
        return st.one_of(st.integers(-9, 9).map(lambda v: enc("int", v)),
                         st.sampled_from(["3", "-4", "3.7", " 5 "]).map(lambda v: enc("str", v)))
    if dtype == "float":
        return st.one_of(st.sampled_from([0.5, -1.25, 3.0, 1e-9]).map(lambda v: enc("float", v)),
                         st.sampled_from(["1.5", "2", "1e3", "-0.0"]).map(lambda v: enc("str", v)))
    if dtype == "boolean":
        return st.one_of(st.booleans().map(lambda v: enc("bool", v)),
                         st.sampled_from(["true", "False", "t", "F", "1", "0"]).map(lambda v: enc("str", v)))
    if dtype == "date":
        return st.one_of(st.sampled_from(["2020-01-01", "1999-12-31"]).map(lambda v: enc("date", v)),
                         st.sampled_from(["2021-02-03"]).map(lambda v: enc("str", v)))
    if dtype == "time":
        return st.one_of(st.sampled_from(["12:30:00", "01:02:03.500000", "01:02:03+01:00"]).map(lambda v: enc("time", v)),
                         st.sampled_from(["04:05:06"]).map(lambda v: enc("str", v)))
    if dtype == "datetime":
        return st.one_of(st.sampled_from(["2020-01-01T12:30:00", "2020-01-01T12:30:00.5",
                                          "2020-01-01T12:30:00+02:00"]).map(lambda v: enc("datetime", v)),
                         st.sampled_from(["2021-02-03 04:05:06"]).map(lambda v: enc("str", v)))
    k = int(dtype.split("-")[0])
    good = "(" + ";".join(["m%d" % i for i in range(k)]) + ")"
    good2 = "(" + "; ".join(["%d" % i for i in range(k)]) + ")"
    return st.one_of(st.sampled_from([good, good2, " " + good + " "]).map(lambda v: enc("str", v)),
                     st.just(enc("list", [enc("str", "q%d" % i) for i in range(k)])))


def decode(x, props=None):
    t, v = x["t"], x.get("v")
    if t in ("int", "float", "bool", "str"):
        return v
    if t == "none":
        return None
    if t == "date":
        return dt.date.fromisoformat(v)
    if t == "time":
        return dt.time.fromisoformat(v)
    if t == "datetime":
        return dt.datetime.fromisoformat(v)
    if t == "list":
        return [decode(i, props) for i in v]
    if t == "tuple":
        return tuple(decode(i, props) for i in v)
    if t == "dict":
        return dict(v)
    if t == "set":
        return set(v)
    if t == "bytes":
        return v.encode()
    if t == "gen":
        return (i for i in v)
    if t == "prop":
        return props[v % len(props)] if props else None
    raise ValueError(t)


OPS = ["ctor", "ctor", "set_values", "set_values", "set_dtype", "set_dtype", "set_dtype_invalid",
       "append", "append", "extend", "extend", "insert", "setitem", "setitem", "remove",
       "merge", "clone", "reassign", "typed_set", "typed_set", "typed_append", "typed_extend",
       "set_dtype_none", "ctor_spelled", "set_dtype_spelled", "typed_set_spelled"]

STEP = st.tuples(st.sampled_from(OPS), st.integers(0, 1), INPUT, st.sampled_from(ALL_DTYPES),
                 st.integers(-2, 6), st.booleans(), st.booleans()).map(list)


@st.composite
def histories(draw, max_steps=14):
    steps = draw(st.lists(STEP, min_size=1, max_size=max_steps))
    out = []
    for s in steps:
        s = list(s)
        if s[0].startswith("typed_"):
            s[2] = draw(st.one_of(typed_input_for(s[3]),
                                  st.lists(typed_input_for(s[3]), min_size=1, max_size=3).map(lambda v: enc("list", v))))
        out.append(s)
    return out


# ------------------------------------------------------------------------------------
# oracle helpers

def spelled(dtype, k):
    """Another accepted spelling of a canonical data type name."""
    alias = {"string": "str", "boolean": "bool"}
    options = [dtype.upper(), dtype.capitalize(), alias.get(dtype, dtype.title())]
    return options[k % 3]


def canonical_dtype(d):
    if d is None:
        return True
    if not isinstance(d, str):
        return False
    name = str.__str__(d)
    if name in CANON_DTYPES or name in ("str", "bool"):
        return True
    parts = name.split("-")
    return len(parts) == 2 and parts[1] == "tuple" and parts[0].isdigit() and int(parts[0]) >= 1 \
        and str(int(parts[0])) == parts[0]


def conforms(value, dtype):
    name = str.__str__(dtype) if dtype is not None else None
    if name is None:
        return False
    if name.endswith("-tuple"):
        k = int(name.split("-")[0])
        return isinstance(value, list) and len(value) == k and all(type(m) is str for m in value)
    py = PYTYPE[name]
    if py is int:
        return type(value) is int
    if py is bool:
        return type(value) is bool
    if py is float:
        return type(value) is float
    if py is str:
        return type(value) is str
    if py is dt.date:
        return type(value) is dt.date
    if py is dt.time:
        return type(value) is dt.time and value.microsecond == 0
    if py is dt.datetime:
        return type(value) is dt.datetime and value.microsecond == 0
    return False


def state_of(p):
    return ([snap.tv(v) for v in p.values], snap.tv(p.dtype))


def conformance_failures(p, where):
    fails = []
    d = p.dtype
    vals = p.values
    if not canonical_dtype(d):
        fails.append(failure("values.dtype_invalid", "%s: dtype is %r" % (where, d), dtype=repr(d)))
        return fails
    if d is None:
        if vals:
            fails.append(failure("values.dtype_none_with_values", "%s: dtype None with values %r"
                                 % (where, vals[:3])))
        return fails
    for v in vals:
        if not conforms(v, d):
            fails.append(failure("values.nonconforming", "%s: value %r (%s) stored with dtype %s"
                                 % (where, v, type(v).__name__, d), dtype=str.__str__(d),
                                 vtype=type(v).__name__))
            break
    return fails


def normal_form_failures(p, where):
    """p.values = p.values is a no-op; text and back gives the same value."""
    fails = []
    d = p.dtype
    if d is None:
        return fails
    before = state_of(p)
    for v in p.values:
        try:
            text = libdtypes.set(v, d)
            back = libdtypes.get(text, d)
        except Exception as exc:  # noqa
            fails.append(failure("values.text_roundtrip", "%s: value %r of dtype %s cannot be converted to "
                                 "text and back: %r" % (where, v, d, exc), dtype=str.__str__(d)))
            break
        if snap.tv(back) != snap.tv(v):
            fails.append(failure("values.text_roundtrip", "%s: value %r of dtype %s becomes %r after text "
                                 "and back" % (where, v, d, back), dtype=str.__str__(d)))
            break
        if not str.__str__(d).endswith("-tuple"):
            # the text form the writers use is str(value)
            try:
                back2 = libdtypes.get(str(v), d)
            except Exception as exc:  # noqa
                fails.append(failure("values.text_roundtrip", "%s: the text %r of value %r (dtype %s) cannot "
                                     "be converted back: %r" % (where, str(v), v, d, exc),
                                     dtype=str.__str__(d)))
                break
            if snap.tv(back2) != snap.tv(v):
                fails.append(failure("values.text_roundtrip", "%s: value %r of dtype %s becomes %r after "
                                     "str() and back" % (where, v, d, back2), dtype=str.__str__(d)))
                break
    try:
        p.values = p.values
    except Exception as exc:  # noqa
        fails.append(failure("values.self_assign", "%s: assigning a Property its own values %r raised %r"
                             % (where, p.values[:3], exc), dtype=str.__str__(d)))
        return fails
    after = state_of(p)
    if after != before:
        fails.append(failure("values.self_assign", "%s: assigning a Property its own values changed %r to %r"
                             % (where, before, after), dtype=str.__str__(d)))
    return fails


ALLOWED_EXC = {
    "setitem": (ValueError, IndexError),
    "insert": (ValueError,),
    "set_dtype_invalid": (AttributeError, ValueError),
    "merge": (ValueError, TypeError),
}


def run_history(history, want=("values",), only=None):
    props = [odml.Property(name="p0"),
             odml.Property(name="p1", values=[1, 2], dtype="int", unit="mV", definition="def",
                           reference="ref", value_origin="vo", uncertainty=0.1)]
    sec = odml.Section(name="s", type="t")
    sec.append(props[0])
    fails = []
    classes = []
    refused_conv = 0
    dtype_changes = 0
    cells = set()
    for i, (op, tgt, inp, dtype, idx, strict, member) in enumerate(history):
        p = props[tgt % 2]
        other = props[(tgt + 1) % 2]
        before = state_of(p)
        before_other = state_of(other)
        before_ident = snap.identity([p, other, sec]) if "atomic" in want else None
        had_values = len(p.values) > 0
        dt_arg = getattr(DType, dtype) if (member and dtype in CANON_DTYPES) else dtype
        if op.endswith("_spelled"):
            # data type names are not case sensitive and have two documented short forms
            op = op[:-len("_spelled")]
            dt_arg = spelled(dtype, idx)
            classes.append("dtype_arg:spelled")
        raised = None
        created = None
        try:
            arg = decode(inp, props)
            if op == "ctor":
                created = odml.Property(name="p%d" % (tgt % 2), values=arg, dtype=dt_arg)
            elif op in ("set_values", "typed_set"):
                if op == "typed_set" and not had_values:
                    p.dtype = dt_arg
                    before = state_of(p)
                    if before_ident is not None:
                        before_ident = snap.identity([p, other, sec])
                p.values = arg
            elif op == "reassign":
                p.values = p.values
            elif op == "set_dtype":
                p.dtype = dt_arg
            elif op == "set_dtype_none":
                p.dtype = None
            elif op == "set_dtype_invalid":
                p.dtype = INVALID_DTYPES[idx % len(INVALID_DTYPES)]
            elif op in ("append", "typed_append"):
                p.append(arg, strict=strict)
            elif op in ("extend", "typed_extend"):
                p.extend(arg, strict=strict)
            elif op == "insert":
                p.insert(idx, arg, strict=strict)
            elif op == "setitem":
                p[idx] = arg
            elif op == "remove":
                vals = p.values
                if vals:
                    p.remove(vals[idx % len(vals)])
            elif op == "merge":
                p.merge(other, strict=strict)
            elif op == "clone":
                created = p.clone(keep_id=strict)
        except Exception as exc:  # refusal is an outcome
            raised = exc
        label = "%s:%s" % (op, "refused" if raised is not None else "ok")
        classes.append(label)
        classes.append("in:%s" % inp["t"])
        where = "step %d %s(%s) dtype-arg %s" % (i, op, inp["t"], dtype)
        step_fails = []
        if created is not None and raised is None:
            if op == "clone":
                if state_of(created) != before:
                    step_fails.append(failure("values.clone", "%s: clone has %r, original %r"
                                              % (where, state_of(created), before)))
            else:
                props[tgt % 2] = created
                if p._parent is not None:
                    # keep one attached Property in play
                    try:
                        sec.remove(p)
                        sec.append(created)
                    except Exception:
                        pass
                p = created
        after = state_of(p)
        if raised is not None:
            cells.add("%s/%s" % (op, type(raised).__name__))
            if op not in ("ctor", "clone"):
                allowed = ALLOWED_EXC.get(op, (ValueError,))
                if not isinstance(raised, allowed):
                    # out-of-domain calls (index of wrong type etc.) are not generated; every
                    # refusal of a value must be a ValueError
                    step_fails.append(failure("values.exception_type", "%s raised %s: %s"
                                              % (where, type(raised).__name__, str(raised)[:100]), op=op,
                                              exc=type(raised).__name__, input=inp["t"]))
                if after != before:
                    step_fails.append(failure("values.refused_changed", "%s raised %s but (values, dtype) "
                                              "went from %r to %r" % (where, type(raised).__name__, before,
                                                                      after), op=op,
                                              dtype_before=before[1], dtype_after=after[1]))
                if "atomic" in want:
                    # the other Property and the Section around must be untouched as well
                    uni = [props[tgt % 2] if created is None else p, other, sec]
                    d = snap.identity_diff(before_ident, snap.identity(uni))
                    if d:
                        step_fails.append(failure("atomic.changed", "%s raised %s but %s changed: %s %r -> %r"
                                                  % (where, type(raised).__name__, d[0][1], d[0][2], d[0][3],
                                                     d[0][4]), op=op, key=d[0][2], objkind=d[0][1]))
            if op in ("set_values", "typed_set", "append", "extend", "insert", "setitem", "typed_append",
                      "typed_extend", "ctor"):
                refused_conv += 1
        else:
            if op in ("set_dtype", "set_dtype_none") and had_values:
                dtype_changes += 1
                # all-or-nothing: every value now conforms to the new dtype (checked below)
        if state_of(other) != before_other and op != "ctor":
            step_fails.append(failure("values.other_changed", "%s changed the other Property from %r to %r"
                                      % (where, before_other, state_of(other)), op=op))
        step_fails.extend(conformance_failures(p, where))
        if not step_fails:
            step_fails.extend(normal_form_failures(p, where))
        if only is not None:
            step_fails = [f for f in step_fails if f["clause"] in only]
        if step_fails:
            for f in step_fails:
                f["locus"].update(step=i, op=op)
            fails.extend(step_fails)
            break
    flags = {"refused_conv": refused_conv, "dtype_changes": dtype_changes, "cells": sorted(cells)}
    return flags, classes, fails
