"""spec -> real odml objects, through public constructors / append only."""
import datetime as dt

import odml
from odml.dtypes import DType


def card(c):
    if c is None:
        return None
    return (c[0], c[1])


def typed_value(v, dtype):
    if dtype == "date":
        return dt.date.fromisoformat(v)
    if dtype == "time":
        return dt.time.fromisoformat(v)
    if dtype == "datetime":
        return dt.datetime.fromisoformat(v)
    if dtype and dtype.endswith("-tuple"):
        return list(v)
    return v


def typed_values(spec):
    out = [typed_value(v, spec["dtype"]) for v in spec["values"]]
    if spec.get("tz_aware") is not None and spec["dtype"] in ("time", "datetime"):
        tz = dt.timezone(dt.timedelta(minutes=spec["tz_aware"]))
        out = [v.replace(tzinfo=tz) for v in out]
    return out


def tuple_text(v):
    return "(%s)" % ";".join(v)


def build_prop(spec, parent=None):
    dtype = spec["dtype"]
    values = typed_values(spec)
    if dtype and dtype.endswith("-tuple"):
        # the public API takes odml style tuples as "(a;b)" strings
        values = [tuple_text(v) for v in values]
    if spec.get("dtype_member"):
        dtype = getattr(DType, dtype)
    prop = odml.Property(name=spec["name"], values=values, dtype=dtype, oid=spec.get("id"),
                         unit=spec.get("unit"), uncertainty=spec.get("uncertainty"),
                         definition=spec.get("definition"), reference=spec.get("reference"),
                         dependency=spec.get("dependency"),
                         dependency_value=spec.get("dependency_value"),
                         value_origin=spec.get("value_origin"),
                         val_cardinality=card(spec.get("val_card")))
    if parent is not None:
        parent.append(prop)
    return prop


def build_sec(spec, parent=None):
    sec = odml.Section(name=spec["name"], type=spec["type"], oid=spec.get("id"),
                       definition=spec.get("definition"), reference=spec.get("reference"),
                       repository=spec.get("repository"), link=spec.get("link"),
                       include=spec.get("include"),
                       sec_cardinality=card(spec.get("sec_card")),
                       prop_cardinality=card(spec.get("prop_card")))
    for p in spec.get("props", []):
        build_prop(p, sec)
    for s in spec.get("sections", []):
        build_sec(s, sec)
    if parent is not None:
        parent.append(sec)
    return sec


def build_doc(spec):
    doc = odml.Document(author=spec.get("author"), version=spec.get("version"),
                        date=spec.get("date"), repository=spec.get("repository"),
                        oid=spec.get("id"))
    for s in spec.get("sections", []):
        build_sec(s, doc)
    return doc


def build(spec):
    k = spec["k"]
    if k == "doc":
        return build_doc(spec)
    if k == "sec":
        return build_sec(spec)
    return build_prop(spec)
