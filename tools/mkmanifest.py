#!/usr/bin/env python3
"""Regenerate MANIFEST.json from the table below (kept in one place so it stays valid)."""
import json
import os

HERE = os.path.dirname(os.path.dirname(os.path.abspath(__file__)))

BASELINE = ("cd /repo && /venv/bin/python -m pytest -ra -q -p no:cacheprovider --timeout=900 "
            "--continue-on-collection-errors")

# id -> (category, technique, level text, level note, design ref)
CHECKS = {
    "C18": ("exploration",
            "harness-owned deterministic scheduler: bounded exhaustive DFS over schedules (choice sequences) + "
            "Hypothesis-drawn programs and schedules, compared with a single-threaded reference",
            "The library's threading name and its shared loaded/loading tables are replaced inside the test "
            "process by a scheduler and instrumented tables, so that every table access, thread start, join and "
            "lock acquisition is a scheduling point and the interleaving is a generated input. For each include "
            "graph x caller program x cache state of a fixed list all schedules with <= 2 (quick) / 3 (thorough) "
            "preemptions are enumerated; Hypothesis adds random programs and longer choice sequences. Every "
            "load must equal the single-threaded reference, nothing may raise, deadlock or exceed the step "
            "bound, cached objects must stay identical, failed fetches must not touch the cache.",
            "Interleavings at table/thread-operation granularity only (not inside CPython, lxml or file I/O); "
            "bounded-step liveness; real locks found on the library's tables are swapped for scheduler-aware ones.",
            "DESIGN.md section 5, C18"),
    "C19": ("exploration",
            "Hypothesis-generated histories of default / custom validations, object creation, cardinality "
            "changes and saves/loads; unchanged-snapshot, repeatability (incl. subprocess differential with "
            "another hash seed) and registry-snapshot oracles",
            "Documents (also deliberately invalid ones) go through generated histories of every validation "
            "entry point; every validation must leave an identity snapshot of the validated objects unchanged, "
            "repeated default validations and a validation of the same file in a child process with another "
            "PYTHONHASHSEED must report the same multiset of issues, the class-level registry of default rules "
            "must equal its import-time snapshot after every step and a marker rule registered on a reset=True "
            "instance must fire there and nowhere else.",
            "Custom rules only via reset=True instances; issue collections compared as multisets.",
            "DESIGN.md section 5, C19"),
    "C20": ("exploration",
            "Hypothesis-generated document sets and queries (hits and misses, string and dict form, match and "
            "fuzzy mode); differential against an independent evaluation of every combination on the source "
            "documents",
            "Queries over one to four attribute/value pairs of one kind or spanning kinds are built from "
            "values harvested from the generated documents or absent from them; the finder's output is parsed "
            "into blocks and compared with an independent evaluation on the source documents: a block exactly "
            "for the combinations with a hit, once, most specific first, and per block the set of nodes of each "
            "queried kind. Sampling only.",
            "Document+Property combinations without a Section are only checked per node; values compared by "
            "their text; boolean values are not queried (their RDF lexical form differs from Python's).",
            "DESIGN.md section 5, C20"),
    "C10": ("exploration",
            "Hypothesis-generated document lists x serialisations x sub-classing x entry points; graph-shape "
            "predicate evaluated with rdflib triple patterns + import round trip on a typed snapshot",
            "The exported graph is re-parsed with rdflib and checked with plain triple patterns against the "
            "shape the property states (Hub, one typed node per object, literal predicates == set attributes, "
            "containment edges == tree, ordered rdf:Seq per valued Property, sub-class triples); the import "
            "must return one document per exported document, equal on the listed attributes up to sibling "
            "order. Sampling only.",
            "rdflib 7.6 as installed; two open known findings (uncertainty imported as text - pinned by the "
            "repository's tests; doubles shortened by rdflib's turtle/n3 writers - dependency).",
            "DESIGN.md section 5, C10"),
    "C16": ("exploration",
            "Hypothesis grammar-based and mutation-based input generation for the XML and dictionary readers "
            "plus a coverage-guided atheris (libFuzzer) campaign; outcome-classification oracle with exception "
            "bucketing, invariants on returned documents and a hang watchdog",
            "Arbitrary text, grammar-generated odML-vocabulary trees with injected faults, structural mutations "
            "of valid files and odML-shaped dictionaries are fed to every entry point in strict and lenient "
            "mode; the only accepted outcomes are a Document satisfying the C03/C04 invariants or a "
            "ParserException, lenient mode must not raise on well-formed current-version input and must keep "
            "valid top-level Sections. The thorough tier adds three libFuzzer campaigns (raw bytes with empty "
            "and seeded corpus, structured via hypothesis.fuzz_one_input) with the oracle inside the target.",
            "Dictionary inputs keep the container shape; 30 s watchdog; atheris from the offline wheelhouse "
            "(campaign skipped with a note if it cannot be installed).",
            "DESIGN.md section 5, C16"),
    "C17": ("fault_enumeration",
            "Hypothesis-generated directory trees of good and bad files run through the three batch tools in a "
            "scratch directory; file-system oracle (hashes, listing, confinement) + content oracle on outputs",
            "Trees are assembled from the ten file kinds the property lists in drawn order and nesting, with "
            "directory names incl. regex metacharacters, and given to odmlconvert, odmltordf and the format "
            "converter (all target formats but trix) with recursion and explicit/implicit output directories. "
            "Input hashes and listing must be unchanged, every created path must lie in the output location, "
            "each output must load / parse and carry its source's content, and the command line tools must "
            "return, report bad files and still convert every convertible file.",
            "Unique base names; the format converter is only required to convert files its target accepts.",
            "DESIGN.md section 5, C17"),
    "C15": ("translation_validation",
            "Hypothesis-generated odML 1.0 documents through three independent emitters; each converted "
            "document validated against an independent model of the documented 1.0->1.1 mapping",
            "Per generated 1.0 document (the 'program') the converter's output is validated: the strict reader "
            "loads it, and tree, Properties, values in order, lifted value attributes, ids, renamed duplicates "
            "and the conversion log agree with an independent model; the source bytes are unchanged and "
            "write_to_file gives the same document. A disagreement is investigated on both sides.",
            "Values well-typed for the first declared type; no network URLs; StringIO sources without an "
            "encoding declaration.",
            "DESIGN.md section 5, C15"),
    "C07": ("fault_enumeration",
            "complete enumeration of the (invalidation route x serialisation fault x format x target state x "
            "entry point) table on Hypothesis-generated documents; file-system oracle on bytes and directory "
            "listing",
            "Every cell of the fault table the property describes is executed in both tiers (exhaustive over "
            "the table, sampled over the documents): validation errors must raise ParserException in every "
            "format, and whenever any entry point raises the target path must be absent / byte-identical and "
            "the directory listing unchanged; warnings-only documents are written, reported and load back.",
            "Content-caused faults, plus text the locale encoding cannot hold (the table is also run in a child "
            "interpreter with an ASCII locale, DESIGN 9.5); no OS-level I/O errors; duplicate sibling names "
            "are no longer producible through the API.",
            "DESIGN.md section 5, C07"),
    "C12": ("exploration",
            "Hypothesis-generated documents with links/includes added by construction, finalize/clean/save-load "
            "histories; independent path arithmetic and resolver, snapshot restoration law, saved file inspected "
            "with xml.etree",
            "1-3 (linking Section, target) pairs meeting the stated side conditions are constructed at drawn "
            "positions with absolute paths, relative paths and file-URL includes; after finalize the copies, the "
            "untouched target and the untouched rest of the document are checked, after clean the restoration "
            "law, the stored reference (harness resolver) and the saved file; cycles and a save/load continue "
            "the history on the re-loaded document. Sampling only.",
            "Same-named children of linking Section and target are mergeable (same type / dtype); includes via "
            "file: URLs.",
            "DESIGN.md section 5, C12"),
    "C11": ("exploration",
            "Hypothesis-generated documents x every node as copy root x flags, two-phase (copy, then edit one "
            "side) with equality, identity-walk and unchanged-snapshot oracles",
            "clone (all flag combinations), export_leaf and TemplateHandler.clone_section are taken from every "
            "node of generated documents; at copy time equality, content, detachment, id freshness/identity and "
            "an identity walk for shared mutable objects are checked; afterwards generated edit sequences on "
            "one side must leave the identity snapshot of the other side unchanged. Sampling only.",
            "Documents without resolved links.",
            "DESIGN.md section 5, C11"),
    "C13": ("exploration",
            "Hypothesis-generated pairs of Section trees with controlled overlap + complete conflict-placement "
            "table; independent completeness/conservativeness model, all-or-nothing by identity snapshot",
            "Pairs built from a common skeleton with per-node and per-Property decisions cover every overlap "
            "shape the property lists, in both strict modes; one conflict of each kind is planted at every "
            "position of a fixed skeleton (complete table, both tiers). On success dest is checked against an "
            "independent model, on any exception dest must be unchanged, src always.",
            "Value membership not multiplicity; case/whitespace-only differences may go either way in strict mode.",
            "DESIGN.md section 5, C13"),
    "C14": ("exploration",
            "exhaustive enumeration of all small trees over prefix-related names + Hypothesis large trees; "
            "identity of path lookups, reference BFS and reference find predicates",
            "All 196 ordered forests with <= 6 Sections x 6 name rotations are enumerated completely: every "
            "node, every ordered pair, every start x depth x yield_self x filter and a grid of find / "
            "find_related queries, compared with reference implementations written in the harness "
            "(exhaustive within these bounds); random trees up to 200 Sections add scale.",
            "Names free of '/', ':' and not '.'/'..'; queries carry a name and/or a type.",
            "DESIGN.md section 5, C14"),
    "C08": ("exploration",
            "Hypothesis-generated documents with invalidating edits; differential against an independent "
            "re-implementation of each documented validation rule (iff per object, kind and rank)",
            "Documents are made invalid on purpose along every route the property lists and validated as "
            "Document, stand-alone Section and stand-alone Property; the reported issues must equal what an "
            "independent model of the documented rules (doc/advanced_features.rst) prescribes, in both "
            "directions, with the documented rank, and validation must never raise. Sampling only.",
            "vf/model/rules.py is the reading of the documentation; deliberate slack for the dependency rule "
            "and for kinds 403/400/600 (see evidence assumptions).",
            "DESIGN.md section 5, C08"),
    "C01": ("exploration",
            "Hypothesis-generated documents x writer options x reader modes x entry points; round-trip oracle "
            "on a typed snapshot, independent vocabulary check (xml.etree) and an independent foreign emitter",
            "Generated documents cover every dtype, value shape, text class, optional attribute and "
            "cardinality shape the property lists; the written XML is checked against a hard-coded odML 1.1 "
            "vocabulary table with a parser independent of the library, loaded back through strict and "
            "lenient readers at every entry point and compared on a typed snapshot after the one permitted "
            "normalisation (whitespace trimming); an independent emitter plays 'another tool'; text XML "
            "cannot hold must make the writer raise. Sampling only.",
            "lxml and xml.etree are trusted as XML parsers; one open known finding (uncertainty re-typed to "
            "text, pinned by the repository's tests) is absorbed by a matcher on the exact attribute and shape.",
            "DESIGN.md section 5, C01"),
    "C02": ("exploration",
            "Hypothesis-generated documents x {JSON, YAML} x entry points; round-trip, layout (plain json/yaml "
            "parse), foreign-layout and JSON/YAML/XML differential oracles",
            "Same document generator as C01 plus look-alike strings and falsy attributes; no trimming is "
            "granted; the written text is parsed with json/yaml directly and checked against a hard-coded key "
            "table; structures from an independent emitter must load to the document they describe; JSON-, "
            "YAML- and XML-loaded documents are compared with each other. Sampling only.",
            "PyYAML and json are trusted; the XML side of the differential inherits known finding C01-F1.",
            "DESIGN.md section 5, C02"),
    "C03": ("exploration",
            "Hypothesis-generated editing histories (model-based, targeted failing pre-states) with the tree "
            "well-formedness invariant evaluated after every step",
            "Histories over a universe of attached/detached objects exercise every operation the property "
            "lists, including refused ones; invariants I1-I5 (parent/child agreement, single membership, no "
            "cycles, document = root of the parent chain, traversals terminate) are checked over the whole "
            "universe after each step. Sampling of an unbounded history space: finds violations, never "
            "proves absence.",
            "Universe of <= 22 objects, names from {a,b,c}; merge/link steps only between unrelated Sections.",
            "DESIGN.md section 5, C03"),
    "C04": ("exploration",
            "Hypothesis-generated editing histories with name/id invariants and a clash-prediction model",
            "Same history engine as C03; after every step sibling names are unique, names are non-empty "
            "str and ids canonical UUIDs; a step the harness model predicts to create a clash must raise; "
            "ids from an enumerated table are passed at creation and to new_id.",
            "Names assigned are str; attaching an object to the container it is already in is not a clash.",
            "DESIGN.md section 5, C04"),
    "C05": ("exploration",
            "Hypothesis-generated value-editing histories with a type-conformance / normal-form oracle",
            "Histories of constructor, values=, dtype=, append, extend, insert, item assignment, remove, "
            "merge, clone (strict on/off) over inputs of every Python type the API accepts; after every step "
            "conformance of each stored value to the dtype, refusal = ValueError + unchanged (values, dtype), "
            "self-assignment and text round trip are identities.",
            "Canonical dtype names and DType members only; indices are ints.",
            "DESIGN.md section 5, C05"),
    "C06": ("fault_enumeration",
            "failure-biased Hypothesis histories + an enumerated scenario table, identity snapshot before == "
            "after whenever a call raised",
            "Every operation of C03-C05/C09 is driven into its failing pre-states (targeted steps and a "
            "29-cell scenario table, each cell run on generated context documents in both tiers); whenever "
            "the call raises, an identity snapshot of every object of the universe must be unchanged and no "
            "new object may be reachable from the documents. The table of cells reached is in the evidence.",
            "Content-level faults only; successful calls are unconstrained.",
            "DESIGN.md section 5, C06 and Appendix B"),
    "C09": ("exploration",
            "exhaustive enumeration of the prescribed settings grid + Hypothesis-generated edit histories "
            "against an independent cardinality model",
            "Every setting of the grid the property prescribes x child counts 0..5 x 3 kinds x both setter "
            "forms is enumerated completely (exhaustive within that grid) and compared with an independent "
            "normal-form/violation model; persistence of every valid setting is enumerated for XML/JSON/YAML "
            "(string and file entry points); Hypothesis histories change the child count across the bounds. "
            "Generated search: says nothing outside the grid bounds.",
            "Trusts vf/model/cardinality.py as the reading of 'normal form'; falsy-odd inputs may reset or "
            "raise; max 0 means no maximum.",
            "DESIGN.md section 5, C09"),
}

PENDING_REASON = "check not built yet in this round (planned, see DESIGN.md section 5)"


def main():
    props = [json.loads(l)["id"] for l in open(os.path.join(HERE, "properties.jsonl"))]
    checks = []
    for pid in props:
        if pid not in CHECKS:
            continue
        cat, tech, text, note, ref = CHECKS[pid]
        checks.append({
            "property_id": pid,
            "quick_cmd": "./check %s quick" % pid,
            "thorough_cmd": "./check %s thorough" % pid,
            "evidence_file": "evidence/%s.json" % pid,
            "replay_cmd_template": "./check %s --replay {path}" % pid,
            "engine": "vf",
            "level_claimed": {"category": cat, "text": text, "design_ref": ref},
            "level_note": note,
            "technique": tech,
        })
    manifest = {
        "version": 1,
        "setup_cmd": "./setup.sh",
        "hooks": {
            "guard": "ODML_VERIF",
            "enable": "no source hooks are needed: the checks import /repo's working tree directly "
                      "(PYTHONPATH=$VERIF_REPO, default /repo); ODML_VERIF=1 is exported by ./check but "
                      "nothing in /repo reads it",
            "baseline_off_cmd": BASELINE,
            "source_commits": [],
            "add_only": True,
        },
        "engines": [
            {"name": "vf", "path": "vf/", "serves_properties": [c["property_id"] for c in checks],
             "kind_free_text": "Python harness (atheris/libFuzzer target for C16 under vf/fuzz): Hypothesis strategies (documents, operation histories, "
                               "fault tables), exhaustive itertools enumeration on a 16-process pool, "
                               "independent reference models in vf/model, collect-classify-shrink runner "
                               "(vf/run.py) writing evidence and replay files"},
        ],
        "checks": checks,
        "notes": "Findings policy and known findings: DESIGN.md section 4 and known_findings.json. "
                 "Seeded mutants used to test the checks: seeded/<id>/.",
        "not_applicable": [{"property_id": p, "reason": PENDING_REASON} for p in props if p not in CHECKS],
    }
    with open(os.path.join(HERE, "MANIFEST.json"), "w") as fh:
        json.dump(manifest, fh, indent=1)
        fh.write("\n")
    print("MANIFEST.json: %d checks, %d not claimed" % (len(checks), len(manifest["not_applicable"])))


if __name__ == "__main__":
    main()
