#!/usr/bin/env python3
"""Regenerate MANIFEST.json from the table below (kept in one place so it stays valid)."""
import json
import os

HERE = os.path.dirname(os.path.dirname(os.path.abspath(__file__)))

BASELINE = ("cd /repo && /venv/bin/python -m pytest -ra -q -p no:cacheprovider --timeout=900 "
            "--continue-on-collection-errors")

# id -> (category, technique, level text, level note, design ref)
CHECKS = {
    "C09": ("exploration",
            "exhaustive enumeration of the prescribed settings grid + Hypothesis-generated edit histories "
            "against an independent cardinality model",
            "Every setting of the grid the property prescribes x child counts 0..5 x 3 kinds x both setter "
            "forms is enumerated completely (exhaustive within that grid) and compared with an independent "
            "normal-form/violation model; persistence of every valid setting is enumerated for XML/JSON/YAML "
            "(string and file entry points); Hypothesis histories change the child count across the bounds. "
            "Generated search: says nothing outside the grid bounds.",
            "Trusts vf/model/cardinality.py as the reading of 'normal form'; falsy-odd inputs may reset or "
            "raise; max 0 means no maximum.",
            "DESIGN.md section 5, C09"),
}

PENDING_REASON = "check not built yet in this round (planned, see DESIGN.md section 5)"


def main():
    props = [json.loads(l)["id"] for l in open(os.path.join(HERE, "properties.jsonl"))]
    checks = []
    for pid in props:
        if pid not in CHECKS:
            continue
        cat, tech, text, note, ref = CHECKS[pid]
        checks.append({
            "property_id": pid,
            "quick_cmd": "./check %s quick" % pid,
            "thorough_cmd": "./check %s thorough" % pid,
            "evidence_file": "evidence/%s.json" % pid,
            "replay_cmd_template": "./check %s --replay {path}" % pid,
            "engine": "vf",
            "level_claimed": {"category": cat, "text": text, "design_ref": ref},
            "level_note": note,
            "technique": tech,
        })
    manifest = {
        "version": 1,
        "setup_cmd": "./setup.sh",
        "hooks": {
            "guard": "ODML_VERIF",
            "enable": "no source hooks are needed: the checks import /repo's working tree directly "
                      "(PYTHONPATH=$VERIF_REPO, default /repo); ODML_VERIF=1 is exported by ./check but "
                      "nothing in /repo reads it",
            "baseline_off_cmd": BASELINE,
            "source_commits": [],
            "add_only": True,
        },
        "engines": [
            {"name": "vf", "path": "vf/", "serves_properties": [c["property_id"] for c in checks],
             "kind_free_text": "Python harness: Hypothesis strategies (documents, operation histories, "
                               "fault tables), exhaustive itertools enumeration on a 16-process pool, "
                               "independent reference models in vf/model, collect-classify-shrink runner "
                               "(vf/run.py) writing evidence and replay files"},
        ],
        "checks": checks,
        "notes": "Findings policy and known findings: DESIGN.md section 4 and known_findings.json. "
                 "Seeded mutants used to test the checks: seeded/<id>/.",
        "not_applicable": [{"property_id": p, "reason": PENDING_REASON} for p in props if p not in CHECKS],
    }
    with open(os.path.join(HERE, "MANIFEST.json"), "w") as fh:
        json.dump(manifest, fh, indent=1)
        fh.write("\n")
    print("MANIFEST.json: %d checks, %d not claimed" % (len(checks), len(manifest["not_applicable"])))


if __name__ == "__main__":
    main()
