#!/usr/bin/env python3
"""Copy confirmed mutants from /tmp/mutants/<PROP>/m<i> into seeded/<PROP>-m<i>/."""
import json, os, shutil, sys
HERE = os.path.dirname(os.path.dirname(os.path.abspath(__file__)))
for prop in sys.argv[1:]:
    base = "/tmp/mutants/%s" % prop
    for m in sorted(os.listdir(base)):
        src = os.path.join(base, m)
        if not os.path.exists(os.path.join(src, "patch.diff")):
            continue
        dst = os.path.join(HERE, "seeded", "%s-%s" % (prop, m))
        os.makedirs(dst, exist_ok=True)
        for f in ("patch.diff", "demo.py"):
            shutil.copy(os.path.join(src, f), os.path.join(dst, f))
        meta = json.load(open(os.path.join(src, "meta.json")))
        meta["origin"] = "independent sub-agent given only the property text and a scratch worktree"
        meta["confirmed"] = ("tools/try_mutant.sh: demo.py exits 0 on the clean tree and non-zero with the "
                             "patch; the repository's 238 baseline tests still pass with the patch")
        json.dump(meta, open(os.path.join(dst, "meta.json"), "w"), indent=1)
        print("kept", dst)
