#!/bin/bash
# tools/all_quick.sh [seed...]  - run every quick check; print one line each
cd /verif
for s in "${@:-1}"; do
  for p in $(python3 -c "import json; print(' '.join(c['property_id'] for c in json.load(open('MANIFEST.json'))['checks']))"); do
    t0=$(date +%s)
    out=$(VERIF_SEED=$s ./check $p quick 2>&1); rc=$?
    echo "seed=$s $p rc=$rc $(( $(date +%s) - t0 ))s | $(echo "$out" | grep -c '^KNOWN') known | $(echo "$out" | tail -1 | cut -c1-110)"
    if [ $rc -ne 0 ]; then echo "$out" | grep -v "^KNOWN" | head -6 | cut -c1-300; fi
  done
done
