#!/bin/bash
# tools/try_mutant.sh <PROP> <dir with patch.diff demo.py> [tier]
# Confirms the mutant (tests pass, demo fails with / passes without), then runs the check on it.
P=$1; D=$2; T=${3:-quick}
cd /repo || exit 2
if [ -n "$(git status --porcelain --untracked-files=no)" ]; then echo "repo dirty"; exit 2; fi
echo "== demo on clean tree"; (cd /tmp && PYTHONPATH=/repo /venv/bin/python $D/demo.py >/dev/null 2>&1; echo "   exit $?")
git apply $D/patch.diff || { echo "patch does not apply"; exit 2; }
echo "== demo with mutant"; (cd /tmp && PYTHONPATH=/repo /venv/bin/python $D/demo.py >/dev/null 2>&1; echo "   exit $?")
echo "== test suite with mutant"; /venv/bin/python -m pytest -q -p no:cacheprovider 2>&1 | tail -1
echo "== check $P $T"
(cd /verif && ./check $P $T 2>&1 | grep -v "^KNOWN" | cut -c1-260 | head -12)
git checkout -- . ; git clean -fdq odml
echo "== reverted: $(git status --porcelain --untracked-files=no | wc -l) dirty files"
