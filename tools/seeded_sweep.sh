#!/bin/bash
# Run every seeded mutant against the check of its property (quick tier); print a table.
# usage: tools/seeded_sweep.sh [tier] [filter]
# The repository that is patched is $VERIF_REPO (default /repo); under `vp run --with-repo` pass
# VERIF_REPO=$VP_RUN_REPO so that the sweep works on the run's own snapshot.
T=${1:-quick}; F=${2:-}
HERE="$(cd "$(dirname "$0")/.." && pwd)"
REPO=${VERIF_REPO:-/repo}
export VERIF_REPO=$REPO
cd "$REPO" || exit 2
if [ -n "$(git status --porcelain --untracked-files=no)" ]; then echo "repo dirty"; exit 2; fi
for d in "$HERE"/seeded/*${F}*/; do
  id=$(basename $d); P=${id%%-*}
  if ! git apply --check $d/patch.diff 2>/dev/null; then echo "$id | patch does not apply"; continue; fi
  git apply $d/patch.diff
  out=$(cd "$HERE" && ./check $P $T 2>&1)
  rc=$?
  clause=$(echo "$out" | grep "failed clause" | head -1 | sed 's/^ *failed clause //' | cut -c1-110)
  git checkout -- . ; git clean -fdq odml
  if [ $rc -eq 1 ]; then echo "$id | CAUGHT ($T) | $clause"; else echo "$id | MISSED ($T) rc=$rc"; fi
done
