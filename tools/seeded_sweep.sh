#!/bin/bash
# Run every seeded mutant against the check of its property (quick tier); print a table.
# usage: tools/seeded_sweep.sh [tier] [filter]
T=${1:-quick}; F=${2:-}
cd /repo || exit 2
if [ -n "$(git status --porcelain --untracked-files=no)" ]; then echo "repo dirty"; exit 2; fi
for d in /verif/seeded/*${F}*/; do
  id=$(basename $d); P=${id%%-*}
  if ! git apply --check $d/patch.diff 2>/dev/null; then echo "$id | patch does not apply"; continue; fi
  git apply $d/patch.diff
  out=$(cd /verif && ./check $P $T 2>&1)
  rc=$?
  clause=$(echo "$out" | grep "failed clause" | head -1 | sed 's/^ *failed clause //' | cut -c1-110)
  git checkout -- . ; git clean -fdq odml
  if [ $rc -eq 1 ]; then echo "$id | CAUGHT ($T) | $clause"; else echo "$id | MISSED ($T) rc=$rc"; fi
done
