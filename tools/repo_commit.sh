#!/bin/bash
# tools/repo_commit.sh <message-file>  - commit /repo changes only if the baseline still passes (238)
cd /repo || exit 2
res=$(/venv/bin/python -m pytest -q -p no:cacheprovider 2>&1 | tail -1)
echo "$res"
if echo "$res" | grep -q "2 failed, 238 passed"; then git commit -q -a -F "$1" && git log --oneline | head -1; else echo "NOT COMMITTED"; exit 1; fi
