#!/usr/bin/env python3
"""Regenerate the findings and seeded-mutant tables of DESIGN.md (between the markers).

usage: tools/mkdesign_tables.py [sweep-log-seed-1 [sweep-log-seed-2]]
"""
import json
import os
import re
import subprocess
import sys

HERE = os.path.dirname(os.path.dirname(os.path.abspath(__file__)))

WHY = {
    "C01-F1": "the repository's own tests pin the behaviour (`test_property.py` asserts that a text uncertainty "
              "stays text, `test_parser_odml.py` compares XML-loaded with RDF-loaded documents); both attempted "
              "repairs broke 6-9 baseline tests",
    "C02-F1": "same root cause as C01-F1 (XML side of the JSON/YAML/XML differential)",
    "C10-F1": "same shape as C01-F1 in the RDF reader; pinned by the same tests",
    "C10-F2": "defect of the dependency: rdflib 7.6 writes xsd:double in turtle/n3 with `%e`",
}

STRENGTHENED = json.load(open(os.path.join(HERE, "tools", "strengthened.json")))


def findings():
    kf = json.load(open(os.path.join(HERE, "known_findings.json")))["findings"]
    out = ["| id | commit | what failed |", "|----|--------|-------------|"]
    for e in kf:
        if e["status"] == "fixed":
            what = e["what"].split(" ", 3)[3] if e["what"].startswith("fixed:") else e["what"]
            out.append("| %s | %s | %s |" % (e["id"], e["commit"], what.replace("|", "/")))
    n = len(subprocess.check_output(["git", "-C", "/repo", "log", "--format=%h", "0728cab..HEAD"]).split())
    out.append("")
    out.append("(%d `fix:` commits in /repo in total; several ids can share one commit.)" % n)
    out.append("")
    out.append("Open known findings (recorded, not repaired):")
    out.append("")
    out.append("| id | why not repaired | what fails (matcher) |")
    out.append("|----|------------------|----------------------|")
    for e in kf:
        if e["status"] == "open":
            out.append("| %s | %s | %s |" % (e["id"], WHY.get(e["id"], ""), e["what"].replace("|", "/")))
    return "\n".join(out)


def mutants(log, log2=None):
    second = {}
    if log2:
        for line in open(log2):
            parts = [x.strip() for x in line.split("|")]
            if len(parts) >= 2:
                second[parts[0]] = "caught" if "CAUGHT" in parts[1] else "MISSED"
    rows = ["| mutant | what was changed (sub-agent's summary) | result (quick tier, seed 1) and first failing "
            "clause | seed 2 | strengthened after a first miss |", "|---|---|---|---|---|"]
    caught = total = 0
    for line in open(log):
        parts = [x.strip() for x in line.split("|")]
        if len(parts) < 2 or not os.path.isdir(os.path.join(HERE, "seeded", parts[0])):
            continue
        mid = parts[0]
        meta = json.load(open(os.path.join(HERE, "seeded", mid, "meta.json")))
        summ = re.sub(r"\s+", " ", meta.get("summary", "")).replace("|", "/")
        if len(summ) > 150:
            summ = summ[:147] + "..."
        clause = parts[2].split(":")[0] if len(parts) > 2 else ""
        total += 1
        caught += "CAUGHT" in parts[1]
        rows.append("| %s | %s | %s `%s` | %s | %s |" % (mid, summ, parts[1].replace(" (quick)", ""), clause,
                                                         second.get(mid, ""), STRENGTHENED.get(mid, "")))
    rows.append("")
    rows.append("%d of %d seeded mutants are caught by the quick tier of the check of their property (sweep of the "
                "final tree, VERIF_SEED=1). %d of them were missed by the first version of the check; the last "
                "column names what was added." % (caught, total, len([k for k in STRENGTHENED if os.path.isdir(
                    os.path.join(HERE, "seeded", k))])))
    if second:
        n2 = sum(1 for v in second.values() if v == "caught")
        rows.append("")
        rows.append("Column 'seed 2': the same sweep with VERIF_SEED=2 (%d of %d caught). The seed-2 results of the "
                    "mutants of the first five rounds were taken a few commits before the final tree (one miss "
                    "there, C20-r2m1, led to the last generator change and was re-run), those of the later "
                    "mutants on the final tree. Both logs are kept in `seeded_results/`." % (n2, len(second)))
    return "\n".join(rows)


def main():
    path = os.path.join(HERE, "DESIGN.md")
    s = open(path).read()
    s = re.sub(r"<!-- FINDINGS-BEGIN -->.*?<!-- FINDINGS-END -->",
               lambda m: "<!-- FINDINGS-BEGIN -->\n" + findings() + "\n<!-- FINDINGS-END -->", s, flags=re.S)
    if len(sys.argv) > 1:
        s = re.sub(r"<!-- MUTANTS-BEGIN -->.*?<!-- MUTANTS-END -->",
                   lambda m: "<!-- MUTANTS-BEGIN -->\n" + mutants(sys.argv[1], sys.argv[2] if len(sys.argv) > 2
                                                                    else None) + "\n<!-- MUTANTS-END -->", s,
                   flags=re.S)
    open(path, "w").write(s)


if __name__ == "__main__":
    main()
