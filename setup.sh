#!/bin/bash
# setup_cmd: offline, idempotent. Installs hypothesis into /venv if missing and
# atheris (for the C16 thorough tier) into /verif/.deps.
set -u
HERE="$(cd "$(dirname "${BASH_SOURCE[0]}")" && pwd)"
cd "$HERE" || exit 1
PY=/venv/bin/python
WH=/opt/veriftools/wheels
export PIP_NO_INDEX=1
if ! $PY -c 'import hypothesis' >/dev/null 2>&1; then
  /venv/bin/pip install --no-index --find-links "$WH" hypothesis || exit 1
fi
if ! PYTHONPATH="$HERE/.deps" $PY -c 'import atheris' >/dev/null 2>&1; then
  mkdir -p "$HERE/.deps"
  /venv/bin/pip install --no-index --find-links "$WH" --target "$HERE/.deps" --no-deps atheris \
    >/dev/null 2>&1 || echo "note: atheris not installed; C16 thorough runs without the libFuzzer campaign"
fi
mkdir -p "$HERE/evidence" "$HERE/replays"
$PY -c 'import hypothesis, odml; print("setup ok: hypothesis", hypothesis.__version__)'
